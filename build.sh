#!/bin/bash
# Content-hash incremental build of /repo/src (working tree) + the simulator
# into /verif/build/<flavour>/simplace.
#
# usage: build.sh <flavour>...      flavours: asan ndebug tsan
#
# An object file is keyed by the SHA-256 of its .cpp, of every header that can
# influence it (all headers under /repo/src resp. /verif/sim) and of the flag
# set, so edits to /repo are always picked up and unchanged files are never
# recompiled.  Nothing is fetched; only g++ and the headers already installed
# are used.
set -euo pipefail
REPO=${VERIF_REPO:-/repo}
HERE="$(cd "$(dirname "$0")" && pwd)"
OUT=${VERIF_BUILD:-$HERE/build}
CXX=${CXX:-g++}
JOBS=${VERIF_JOBS:-$(nproc)}

flags_for() {
  case "$1" in
    asan)   echo "-O1 -g -fno-omit-frame-pointer -fsanitize=address,undefined,float-cast-overflow -fno-sanitize-recover=all" ;;
    ndebug) echo "-O2 -g1 -DNDEBUG" ;;
    tsan)   echo "-O1 -g -fno-omit-frame-pointer -fsanitize=thread" ;;
    *) echo "unknown flavour $1" >&2; exit 2 ;;
  esac
}

build_flavour() {
  local fl=$1
  local dir=$OUT/$fl
  mkdir -p "$dir/obj"
  local san; san=$(flags_for "$fl")
  local common="-std=c++17 -pthread -DCOLOQUINTE_VERIF -DVERIF_FLAVOUR=\"$fl\" -Wno-deprecated-declarations"
  local libflags="$common $san -I$REPO/src"
  local simflags="$common $san -I$REPO/src -I$HERE/sim -fno-access-control -DLEMON_NO_UNUSED_LOCAL_TYPEDEF_WARNINGS=1"
  # the scheduler hand-off must not create happens-before edges under TSan
  local schedflags="$common -O1 -g -I$HERE/sim"

  local libhdr simhdr
  libhdr=$(find "$REPO/src" -name '*.hpp' -o -name '*.h' | LC_ALL=C sort | xargs cat | sha256sum | cut -c1-16)
  simhdr=$( (find "$HERE/sim" -name '*.hpp' | LC_ALL=C sort | xargs cat; echo "$libhdr") | sha256sum | cut -c1-16)

  local todo="$dir/todo.$$"; : > "$todo"
  local objs=()
  add() { # src flags hdrhash
    local src=$1 fl2=$2 hh=$3
    local key; key=$( (cat "$src"; echo "$fl2"; echo "$hh"; $CXX --version | head -1) | sha256sum | cut -c1-20)
    local base; base=$(echo "$src" | sed 's#[/.]#_#g')
    local obj="$dir/obj/${base}-${key}.o"
    objs+=("$obj")
    if [ ! -s "$obj" ]; then
      printf '%s\0%s\0%s\0' "$src" "$obj" "$fl2" >> "$todo"
    fi
  }
  local f
  while IFS= read -r f; do add "$f" "$libflags" "$libhdr"; done < <(find "$REPO/src" -name '*.cpp' | LC_ALL=C sort)
  while IFS= read -r f; do
    if [ "$(basename "$f")" = "sched.cpp" ]; then add "$f" "$schedflags" "$simhdr"
    else add "$f" "$simflags" "$simhdr"; fi
  done < <(find "$HERE/sim" -name '*.cpp' | LC_ALL=C sort)

  local n; n=$(tr -cd '\0' < "$todo" | wc -c); n=$((n / 3))
  if [ "$n" -gt 0 ]; then
    echo "[build:$fl] compiling $n file(s)" >&2
    # shellcheck disable=SC2016
    if ! CXX="$CXX" xargs -0 -n3 -P "$JOBS" bash -c '$CXX $2 -c "$0" -o "$1.tmp.$$" && mv "$1.tmp.$$" "$1"' < "$todo"; then
      rm -f "$todo"; echo "[build:$fl] compilation failed" >&2; exit 3
    fi
  fi
  rm -f "$todo"
  local stamp; stamp=$(printf '%s\n' "${objs[@]}" | sha256sum | cut -c1-20)
  if [ ! -x "$dir/simplace" ] || [ "$(cat "$dir/link.stamp" 2>/dev/null)" != "$stamp" ]; then
    echo "[build:$fl] linking" >&2
    # shellcheck disable=SC2086
    $CXX $san -pthread -o "$dir/simplace.tmp.$$" "${objs[@]}" -ldl
    mv "$dir/simplace.tmp.$$" "$dir/simplace"
    echo "$stamp" > "$dir/link.stamp"
    # drop stale objects
    { ls "$dir/obj"/*.o 2>/dev/null | grep -v -F -f <(printf '%s\n' "${objs[@]}") | xargs -r rm -f; } || true
  fi
}

[ $# -ge 1 ] || { echo "usage: $0 <flavour>..." >&2; exit 2; }
for fl in "$@"; do build_flavour "$fl"; done
