// Batch driver: seeded search over plans across a pool of worker processes,
// crash classification, determinism gate, minimisation, replay files and the
// per-flavour evidence record.
#include "batch.hpp"

#include <fcntl.h>
#include <poll.h>
#include <signal.h>
#include <sys/mman.h>
#include <sys/stat.h>
#include <sys/syscall.h>
#include <sys/wait.h>
#include <time.h>
#include <unistd.h>

#include <algorithm>
#include <atomic>
#include <cerrno>
#include <cstdio>
#include <cstdlib>
#include <cstring>
#include <fstream>
#include <functional>
#include <map>
#include <set>
#include <sstream>
#include <string>
#include <vector>

#include "exec.hpp"
#include "gen.hpp"
#include "plan.hpp"
#include "util.hpp"

#ifndef VERIF_FLAVOUR
#define VERIF_FLAVOUR "unknown"
#endif

namespace sim {
namespace {

double nowSec() {
  struct timespec ts;
  syscall(SYS_clock_gettime, CLOCK_MONOTONIC, &ts);
  return ts.tv_sec + ts.tv_nsec * 1e-9;
}

// CPU seconds (user + system, all threads) consumed so far by a process.  The
// watchdog budgets are CPU time, not wall-clock time, so that a loaded machine
// cannot turn a slow but terminating run into a "hang".
double procCpuSeconds(pid_t pid) {
  char path[64];
  snprintf(path, sizeof path, "/proc/%d/stat", (int)pid);
  FILE *f = fopen(path, "r");
  if (!f) return -1;
  char buf[1024];
  size_t n = fread(buf, 1, sizeof buf - 1, f);
  fclose(f);
  buf[n] = 0;
  char *p = strrchr(buf, ')');
  if (!p) return -1;
  // after ") " come state(3) ppid pgrp session tty tpgid flags minflt cminflt majflt cmajflt utime(14) stime(15)
  unsigned long long ut = 0, st = 0;
  int field = 2;
  char *tok = strtok(p + 1, " ");
  while (tok) {
    ++field;
    if (field == 14) ut = strtoull(tok, nullptr, 10);
    if (field == 15) {
      st = strtoull(tok, nullptr, 10);
      break;
    }
    tok = strtok(nullptr, " ");
  }
  static long tck = sysconf(_SC_CLK_TCK);
  return (double)(ut + st) / (double)(tck > 0 ? tck : 100);
}

std::string oneLine(std::string s) {
  for (char &c : s)
    if (c == '\n' || c == '\t' || c == '\r') c = ' ';
  return s;
}

// ------------------------------------------------------- serialisation ----
std::string serializeResult(const ExecResult &r) {
  std::ostringstream os;
  if (r.invalidPlan) os << "I\t" << oneLine(r.invalidWhy) << "\n";
  for (auto &v : r.verdicts) os << "V\t" << v.prop << "\t" << v.clause << "\t" << v.op << "\t" << oneLine(v.detail) << "\n";
  for (auto &kv : r.stats.c) os << "S\t" << kv.first << "\t" << kv.second << "\n";
  for (auto h : r.stateHashes) os << "H\t" << h << "\n";
  for (auto h : r.schedHashes) os << "G\t" << h << "\n";
  if (r.schedDegraded) os << "D\t1\n";
  os << "T\t" << r.traceHash << "\n";
  return os.str();
}

void parseResultLine(const std::string &line, ExecResult &r) {
  std::vector<std::string> f;
  size_t p = 0;
  while (true) {
    size_t q = line.find('\t', p);
    if (q == std::string::npos) {
      f.push_back(line.substr(p));
      break;
    }
    f.push_back(line.substr(p, q - p));
    p = q + 1;
  }
  if (f.empty()) return;
  if (f[0] == "I") {
    r.invalidPlan = true;
    r.invalidWhy = f.size() > 1 ? f[1] : "";
  } else if (f[0] == "V" && f.size() >= 5) {
    Verdict v;
    v.prop = f[1];
    v.clause = f[2];
    v.op = atoi(f[3].c_str());
    v.detail = f[4];
    r.verdicts.push_back(v);
  } else if (f[0] == "S" && f.size() >= 3) {
    r.stats.c[f[1]] += strtoll(f[2].c_str(), nullptr, 10);
  } else if (f[0] == "H" && f.size() >= 2) {
    r.stateHashes.push_back(strtoull(f[1].c_str(), nullptr, 10));
  } else if (f[0] == "G" && f.size() >= 2) {
    r.schedHashes.push_back(strtoull(f[1].c_str(), nullptr, 10));
  } else if (f[0] == "D") {
    r.schedDegraded = true;
  } else if (f[0] == "T" && f.size() >= 2) {
    r.traceHash = strtoull(f[1].c_str(), nullptr, 10);
  }
}

// ------------------------------------------------------------- crashes ----
struct CrashInfo {
  bool crashed = false;
  bool timeout = false;
  int sig = 0, exitCode = 0;
  std::string cls;       // assert | asan | ubsan | tsan | terminate | signal | exit | timeout
  std::string headline;  // normalised first distinctive line
  std::string tail;      // last lines of stderr
  CrashMarker marker;
  std::string key() const { return cls + ": " + headline; }
};

std::string normalise(std::string s) {
  // drop addresses, pids, thread ids and absolute directories
  std::string out;
  for (size_t i = 0; i < s.size();) {
    if (s[i] == '0' && i + 1 < s.size() && s[i + 1] == 'x') {
      out += "0x?";
      i += 2;
      while (i < s.size() && isxdigit((unsigned char)s[i])) ++i;
      continue;
    }
    if (s.compare(i, 5, "(pid=") == 0) {
      size_t j = i + 5;
      while (j < s.size() && isdigit((unsigned char)s[j])) ++j;
      if (j < s.size() && s[j] == ')') {
        i = j + 1;
        continue;
      }
    }
    if (s.compare(i, 2, "==") == 0 && i + 2 < s.size() && isdigit((unsigned char)s[i + 2])) {
      size_t j = i + 2;
      while (j < s.size() && isdigit((unsigned char)s[j])) ++j;
      if (s.compare(j, 2, "==") == 0) {
        i = j + 2;
        continue;
      }
    }
    out += s[i++];
  }
  // strip directories of source paths
  std::string o2;
  std::istringstream is(out);
  std::string tok;
  bool first = true;
  while (is >> tok) {
    size_t sl = tok.rfind('/');
    if (sl != std::string::npos && tok.find(".cpp") != std::string::npos) tok = tok.substr(sl + 1);
    if (sl != std::string::npos && (tok.find(".hpp") != std::string::npos || tok.find(".h:") != std::string::npos)) tok = tok.substr(tok.rfind('/') + 1);
    if (!first) o2 += ' ';
    o2 += tok;
    first = false;
  }
  if (o2.size() > 220) o2.resize(220);
  return o2;
}

void classifyCrash(CrashInfo &ci, int status, const std::string &err) {
  ci.crashed = true;
  if (WIFSIGNALED(status)) ci.sig = WTERMSIG(status);
  if (WIFEXITED(status)) ci.exitCode = WEXITSTATUS(status);
  std::vector<std::string> lines;
  {
    std::istringstream is(err);
    std::string l;
    while (std::getline(is, l)) lines.push_back(l);
  }
  auto find = [&](const char *needle) -> std::string {
    for (auto &l : lines)
      if (l.find(needle) != std::string::npos) return l;
    return "";
  };
  std::string l;
  if (!(l = find("Assertion")).empty() && l.find("failed") != std::string::npos) {
    ci.cls = "assert";
    ci.headline = normalise(l);
  } else if (!(l = find("ThreadSanitizer")).empty()) {
    ci.cls = "tsan";
    ci.headline = normalise(l);
    // add the first library frame for a stable, informative class
    for (auto &x : lines)
      if (x.find("#") != std::string::npos && x.find("coloquinte::") != std::string::npos) {
        size_t p = x.find("coloquinte::");
        size_t q = x.find('(', p);
        ci.headline += " @ " + x.substr(p, q == std::string::npos ? 60 : q - p);
        break;
      }
  } else if (!(l = find("ERROR: AddressSanitizer")).empty()) {
    ci.cls = "asan";
    std::string n = normalise(l);
    size_t p = n.find(" on address");
    if (p != std::string::npos) n.resize(p);
    ci.headline = n;
    for (auto &x : lines)
      if (x.find("#") != std::string::npos && x.find("coloquinte::") != std::string::npos) {
        size_t pp = x.find("coloquinte::");
        size_t q = x.find('(', pp);
        ci.headline += " @ " + x.substr(pp, q == std::string::npos ? 60 : q - pp);
        break;
      }
  } else if (!(l = find("runtime error:")).empty()) {
    ci.cls = "ubsan";
    ci.headline = normalise(l);
    {
      // operand values vary from run to run: keep file:line:col, mask the rest
      size_t p = ci.headline.find("runtime error:");
      if (p != std::string::npos) {
        std::string head = ci.headline.substr(0, p), tail = ci.headline.substr(p), masked;
        for (size_t i = 0; i < tail.size();) {
          if (isdigit((unsigned char)tail[i]) && (i == 0 || !isalpha((unsigned char)tail[i - 1]))) {
            masked += 'N';
            while (i < tail.size() && (isdigit((unsigned char)tail[i]) || tail[i] == '.' || tail[i] == 'e' || tail[i] == '+')) ++i;
          } else if (tail[i] == '-' && i + 1 < tail.size() && isdigit((unsigned char)tail[i + 1])) {
            ++i;
          } else {
            masked += tail[i++];
          }
        }
        ci.headline = head + masked;
      }
    }
  } else if (!(l = find("terminate called")).empty()) {
    ci.cls = "terminate";
    ci.headline = normalise(l);
    std::string w = find("what():");
    if (!w.empty()) ci.headline += " " + normalise(w);
  } else if (ci.timeout) {
    ci.cls = "timeout";
    ci.headline = "did not finish within the CPU-time budget of the watchdog";
  } else if (ci.sig) {
    ci.cls = "signal";
    ci.headline = "signal " + std::to_string(ci.sig);
  } else {
    ci.cls = "exit";
    ci.headline = "exit code " + std::to_string(ci.exitCode);
  }
  size_t from = lines.size() > 25 ? lines.size() - 25 : 0;
  for (size_t i = from; i < lines.size(); ++i) ci.tail += lines[i] + "\n";
}

std::string readFile(const std::string &path, size_t maxBytes = 200000) {
  std::ifstream in(path);
  std::stringstream ss;
  ss << in.rdbuf();
  std::string s = ss.str();
  if (s.size() > maxBytes) s = s.substr(0, maxBytes / 2) + "\n...\n" + s.substr(s.size() - maxBytes / 2);
  return s;
}

std::string g_tmpDir = "/verif/build/tmp";

// true if `plan`, executed in a fresh process, completes or dies at another op than `op`
bool planGetsPastOp(const Plan &plan, int op);

// Map a crash to a verdict of the property under check, if that property
// covers it (see DESIGN.md: crash attribution).
// Known finding C06-netlist-without-connections (see exec_circuit.cpp): no net of the circuit joins
// two different cells.  Nets never change during a plan, so the plan's circuit decides.
bool planNetlistWithoutConnections(const Plan &plan) {
  if (plan.kind != "circuit" || plan.circuit.nets.empty()) return false;
  for (auto &n : plan.circuit.nets)
    for (size_t i = 1; i < n.cells.size(); ++i)
      if (n.cells[i] != n.cells[0]) return false;
  return true;
}

bool crashVerdict(const std::string &prop, const Plan &plan, const CrashInfo &ci, Verdict &v) {
  const CrashMarker &m = ci.marker;
  v.op = m.op;
  v.detail = ci.key() + " [op " + std::to_string(m.op) + " kind " + std::to_string(m.opKind) + " sub " + std::to_string(m.sub) + " phase " + std::to_string(m.phase) + "]";
  if (ci.cls == "timeout") {
    if (prop == "C07" && m.dom07) {
      v.prop = "C07";
      v.clause = "hang";
      return true;
    }
    return false;
  }
  bool floatCast = ci.cls == "ubsan" && ci.headline.find("outside the range of representable values") != std::string::npos;
  bool divergedSolve = floatCast && m.opKind == OP_GLOBAL && planNetlistWithoutConnections(plan);
  if (prop == "C07") {
    if (!m.dom07) return false;  // the op started outside the C07 domain
    v.prop = "C07";
    v.clause = "crash-" + ci.cls + (divergedSolve ? "-float-cast-netlist-without-connections" : "");
    return true;
  }
  if (prop == "C08" && ci.cls == "tsan") {
    v.prop = "C08";
    v.clause = "data-race";
    return true;
  }
  if (prop == "C19" && m.opKind == OP_BADCALL) {
    v.prop = "C19";
    v.clause = "crash-on-invalid-input";
    v.detail = std::string(m.note) + ": " + v.detail;
    return true;
  }
  if (prop == "C06" && m.dom06 && ci.cls == "ubsan" && (ci.headline.find("outside the range of representable values") != std::string::npos) && m.opKind == OP_GLOBAL) {
    v.prop = "C06";
    v.clause = divergedSolve ? "non-finite-coordinate-netlist-without-connections" : "non-finite-coordinate";
    return true;
  }
  if (prop == "C10" && plan.kind == "circuit" && m.op >= 0 && m.op < (int)plan.ops.size()) {
    const Op &op = plan.ops[m.op];
    bool faulted = op.enumThrow || op.allocFail >= 0;
    for (auto &a : op.actions)
      if (a.kind <= CB_THROW_INT || a.kind == CB_POKE) faulted = true;
    if (faulted && (ci.cls == "terminate" || ci.cls == "asan")) {
      v.prop = "C10";
      v.clause = "crash-under-fault";
      return true;
    }
    if (faulted && ci.cls != "timeout") {
      // Any other death (assertion, signal, UBSan) of an op that carries an injected fault is
      // attributed to C10 only if the fault is what kills it: the same plan with the faults of
      // that op removed must get past that op in a fresh process.
      Plan q = plan;
      Op &qo = q.ops[m.op];
      qo.enumThrow = 0;
      qo.allocFail = -1;
      std::vector<CbAction> keep;
      for (auto &a : qo.actions)
        if (!(a.kind <= CB_THROW_INT || a.kind == CB_POKE)) keep.push_back(a);
      qo.actions = keep;
      if (planGetsPastOp(q, m.op)) {
        v.prop = "C10";
        v.clause = "crash-under-fault";
        v.detail += " (the same plan without the injected fault gets past this op)";
        return true;
      }
    }
  }
  if (prop == "C12" && m.opKind == 100) {
    v.prop = "C12";
    v.clause = "crash-" + ci.cls;
    return true;
  }
  if (prop == "C16" && m.opKind == 101) {
    v.prop = "C16";
    v.clause = "crash-" + ci.cls;
    return true;
  }
  if (prop == "C09" && m.opKind == 102) {
    v.prop = "C09";
    v.clause = "crash-" + ci.cls;
    return true;
  }
  if (prop == "C02" && m.opKind == 103) {
    v.prop = "C02";
    v.clause = "crash-" + ci.cls;
    return true;
  }
  return false;
}

// --------------------------------------------------- isolated execution ---
struct IsoResult {
  bool completed = false;
  ExecResult res;
  CrashInfo crash;
};

struct SharedIso {
  CrashMarker marker;
};

IsoResult runIsolated(const Plan &plan, double timeoutSec, const std::vector<Plan> *prefix = nullptr) {
  IsoResult out;
  static SharedIso *sh = nullptr;
  if (!sh) sh = (SharedIso *)mmap(nullptr, sizeof(SharedIso), PROT_READ | PROT_WRITE, MAP_SHARED | MAP_ANONYMOUS, -1, 0);
  memset(sh, 0, sizeof *sh);
  sh->marker.op = -1;
  sh->marker.opKind = -1;
  int pfd[2];
  if (pipe(pfd) != 0) return out;
  std::string errPath = g_tmpDir + "/iso-" + std::to_string(getpid()) + ".err";
  fflush(stdout);
  fflush(stderr);
  pid_t pid = fork();
  if (pid == 0) {
    close(pfd[0]);
    int efd = open(errPath.c_str(), O_WRONLY | O_CREAT | O_TRUNC, 0644);
    if (efd >= 0) {
      dup2(efd, 2);
      close(efd);
    }
    setCrashMarker(&sh->marker);
    // history: plans executed earlier in this same process (results ignored)
    if (prefix)
      for (auto &pp : *prefix) (void)executePlan(pp);
    ExecResult r = executePlan(plan);
    std::string s = serializeResult(r) + "END\n";
    size_t off = 0;
    while (off < s.size()) {
      ssize_t n = write(pfd[1], s.data() + off, s.size() - off);
      if (n <= 0) break;
      off += n;
    }
    _exit(0);
  }
  close(pfd[1]);
  std::string buf;
  double t0 = nowSec();
  double lastCpu = 0, lastAdvance = t0;
  bool timedOut = false;
  for (;;) {
    struct pollfd p = {pfd[0], POLLIN, 0};
    int pr = poll(&p, 1, 200);
    if (pr > 0) {
      char tmp[65536];
      ssize_t n = read(pfd[0], tmp, sizeof tmp);
      if (n <= 0) break;
      buf.append(tmp, n);
    }
    double cpu = procCpuSeconds(pid);
    double wall = nowSec() - t0;
    if (cpu > lastCpu + 0.2) {
      lastCpu = cpu;
      lastAdvance = nowSec();
    }
    // budget in CPU seconds; a process that burns no CPU at all for the whole
    // budget (dead-lock) is killed on wall-clock
    if ((cpu >= 0 && cpu > timeoutSec) || nowSec() - lastAdvance > std::max(30.0, timeoutSec) || wall > 20 * timeoutSec) {
      timedOut = true;
      kill(pid, SIGKILL);
      break;
    }
  }
  close(pfd[0]);
  int status = 0;
  waitpid(pid, &status, 0);
  bool ended = buf.size() >= 4 && buf.compare(buf.size() - 4, 4, "END\n") == 0;
  if (ended && WIFEXITED(status) && WEXITSTATUS(status) == 0) {
    out.completed = true;
    std::istringstream is(buf);
    std::string l;
    while (std::getline(is, l))
      if (l != "END") parseResultLine(l, out.res);
  } else {
    out.crash.timeout = timedOut;
    out.crash.marker = sh->marker;
    classifyCrash(out.crash, status, readFile(errPath));
  }
  unlink(errPath.c_str());
  return out;
}

bool planGetsPastOp(const Plan &plan, int op) {
  IsoResult r = runIsolated(plan, 240.0);
  return r.completed || r.crash.marker.op != op;
}

// The "violation class" of one isolated execution w.r.t. a property.
struct VClass {
  bool any = false;
  std::string prop, clause, detail;
  bool fromCrash = false;
  std::string crashKey;
  std::string key() const { return prop + ":" + clause + (fromCrash ? "|" + crashKey : ""); }
};

VClass classOf(const std::string &prop, const Plan &plan, const IsoResult &r, const std::string &wantClause = "") {
  VClass c;
  if (r.completed) {
    for (auto &v : r.res.verdicts)
      if (v.prop == prop && (wantClause.empty() || v.clause == wantClause)) {
        c.any = true;
        c.prop = v.prop;
        c.clause = v.clause;
        c.detail = v.detail;
        return c;
      }
    return c;
  }
  Verdict v;
  if (crashVerdict(prop, plan, r.crash, v) && (wantClause.empty() || v.clause == wantClause)) {
    c.any = true;
    c.prop = v.prop;
    c.clause = v.clause;
    c.detail = v.detail;
    c.fromCrash = true;
    c.crashKey = r.crash.key();
  }
  return c;
}

// ---------------------------------------------------------- minimiser -----
void removeCell(CircuitSpec &c, int idx) {
  c.cells.erase(c.cells.begin() + idx);
  for (auto &n : c.nets) {
    for (int p = (int)n.cells.size() - 1; p >= 0; --p) {
      if (n.cells[p] == idx) {
        n.cells.erase(n.cells.begin() + p);
        n.xo.erase(n.xo.begin() + p);
        n.yo.erase(n.yo.begin() + p);
      } else if (n.cells[p] > idx) {
        n.cells[p]--;
      }
    }
  }
  c.nets.erase(std::remove_if(c.nets.begin(), c.nets.end(), [](const NetSpec &n) { return n.cells.empty(); }), c.nets.end());
}

struct Minimiser {
  std::string prop;
  std::string wantKey;
  int budget = 300;
  double deadline = 0;
  int runs = 0;
  double isoTimeout = 30;
  bool fails(const Plan &p) {
    if (runs >= budget || nowSec() > deadline) return false;
    ++runs;
    IsoResult r = runIsolated(p, isoTimeout);
    VClass c = classOf(prop, p, r);
    // restrict shrinking to one violation class
    if (!c.any) return false;
    if (c.key() == wantKey) return true;
    // a different clause of the same property is a different class
    for (auto &v : r.res.verdicts)
      if (v.prop == prop && (prop + ":" + v.clause) == wantKey) return true;
    return false;
  }
  template <class Vec>
  void shrinkList(Plan &best, std::function<Vec &(Plan &)> get) {
    // chunks first, then single elements
    size_t n = get(best).size();
    for (size_t chunk = std::max<size_t>(1, n / 2); chunk >= 1; chunk /= 2) {
      for (size_t start = 0; start < get(best).size();) {
        Plan cand = best;
        Vec &v = get(cand);
        size_t end = std::min(v.size(), start + chunk);
        if (start >= end) break;
        v.erase(v.begin() + start, v.begin() + end);
        if (fails(cand)) best = cand;
        else start += chunk;
        if (runs >= budget) return;
      }
      if (chunk == 1) break;
    }
  }
  Plan run(const Plan &orig) {
    Plan best = orig;
    if (best.kind == "circuit" || best.kind == "c08") {
      shrinkList<std::vector<Op>>(best, [](Plan &p) -> std::vector<Op> & { return p.ops; });
    }
    shrinkList<std::vector<Variant>>(best, [](Plan &p) -> std::vector<Variant> & { return p.variants; });
    shrinkList<std::vector<GOp>>(best, [](Plan &p) -> std::vector<GOp> & { return p.gops; });
    // faults and schedules of each op
    for (size_t i = 0; i < best.ops.size(); ++i) {
      auto tryEdit = [&](std::function<void(Op &)> f) {
        Plan cand = best;
        f(cand.ops[i]);
        if (planToText(cand) != planToText(best) && fails(cand)) best = cand;
      };
      tryEdit([](Op &o) { o.actions.clear(); });
      for (int a = (int)best.ops[i].actions.size() - 1; a >= 0; --a)
        tryEdit([a](Op &o) { if (a < (int)o.actions.size()) o.actions.erase(o.actions.begin() + a); });
      tryEdit([](Op &o) { o.enumThrow = 0; });
      tryEdit([](Op &o) { o.sched.clear(); o.schedMode = 0; });
      if (!best.ops[i].sched.empty() && best.ops[i].sched.size() <= 400)
        shrinkList<std::vector<int>>(best, [i](Plan &p) -> std::vector<int> & { return p.ops[i].sched; });
      tryEdit([](Op &o) { o.clock = 0; });
      tryEdit([](Op &o) { o.stdoutBad = 0; });
      tryEdit([](Op &o) { o.allocFail = -1; });
      tryEdit([](Op &o) { o.cb = 0; });
      tryEdit([](Op &o) { o.params.ov.clear(); });
      for (int a = (int)best.ops[i].params.ov.size() - 1; a >= 0; --a)
        tryEdit([a](Op &o) { if (a < (int)o.params.ov.size()) o.params.ov.erase(o.params.ov.begin() + a); });
      tryEdit([](Op &o) { o.params.seed = -1; });
      tryEdit([](Op &o) { o.params.effort = 3; });
    }
    for (size_t i = 0; i < best.variants.size(); ++i) {
      auto tryEdit = [&](std::function<void(Variant &)> f) {
        Plan cand = best;
        f(cand.variants[i]);
        if (planToText(cand) != planToText(best) && fails(cand)) best = cand;
      };
      tryEdit([](Variant &v) { v.sched.clear(); v.schedMode = 1; });
      if (!best.variants[i].sched.empty() && best.variants[i].sched.size() <= 400)
        shrinkList<std::vector<int>>(best, [i](Plan &p) -> std::vector<int> & { return p.variants[i].sched; });
      tryEdit([](Variant &v) { v.clock = 0; });
      tryEdit([](Variant &v) { v.stdoutBad = 0; });
      tryEdit([](Variant &v) { v.cb = 0; });
      tryEdit([](Variant &v) { v.mode = VM_FRESH; });
    }
    {
      Plan cand = best;
      cand.other = CircuitSpec();
      if (!best.other.cells.empty() && fails(cand)) best = cand;
    }
    // circuit: nets, cells, rows
    shrinkList<std::vector<NetSpec>>(best, [](Plan &p) -> std::vector<NetSpec> & { return p.circuit.nets; });
    {
      size_t n = best.circuit.cells.size();
      for (size_t chunk = std::max<size_t>(1, n / 2); chunk >= 1; chunk /= 2) {
        for (size_t start = 0; start < best.circuit.cells.size();) {
          Plan cand = best;
          size_t end = std::min(cand.circuit.cells.size(), start + chunk);
          for (size_t k = end; k > start; --k) removeCell(cand.circuit, (int)k - 1);
          if (fails(cand)) best = cand;
          else start += chunk;
          if (runs >= budget) break;
        }
        if (chunk == 1 || runs >= budget) break;
      }
    }
    shrinkList<std::vector<RowSpec>>(best, [](Plan &p) -> std::vector<RowSpec> & { return p.circuit.rows; });
    // pins of the remaining nets
    for (size_t ni = 0; ni < best.circuit.nets.size() && runs < budget; ++ni)
      for (int p = (int)best.circuit.nets[ni].cells.size() - 1; p >= 0 && best.circuit.nets[ni].cells.size() > 1; --p) {
        Plan cand = best;
        auto &n = cand.circuit.nets[ni];
        n.cells.erase(n.cells.begin() + p);
        n.xo.erase(n.xo.begin() + p);
        n.yo.erase(n.yo.begin() + p);
        if (fails(cand)) best = cand;
      }
    // numeric shrinking towards small values (bounded)
    auto shrinkNum = [&](std::function<long long *(Plan &)> get) {
      for (int round = 0; round < 6 && runs < budget; ++round) {
        long long *pv = get(best);
        if (!pv) return;
        long long v = *pv;
        if (v == 0) return;
        bool improved = false;
        for (long long cand : {0LL, v / 2, v > 0 ? v - 1 : v + 1}) {
          if (cand == v) continue;
          Plan c = best;
          *get(c) = cand;
          if (fails(c)) {
            best = c;
            improved = true;
            break;
          }
        }
        if (!improved) return;
      }
    };
    if (best.circuit.cells.size() <= 24) {
      for (size_t i = 0; i < best.circuit.cells.size() && runs < budget; ++i) {
        // ints are shrunk through a long long proxy
        for (int f = 0; f < 4; ++f) {
          for (int round = 0; round < 5 && runs < budget; ++round) {
            CellSpec &k = best.circuit.cells[i];
            int *fld = f == 0 ? &k.x : f == 1 ? &k.y : f == 2 ? &k.w : &k.h;
            int v = *fld;
            int lowest = f >= 2 ? 1 : 0;
            if (v == lowest) break;
            bool improved = false;
            for (int cand : {lowest, v / 2, v > 0 ? v - 1 : v + 1}) {
              if (cand == v || (f >= 2 && cand < 1 && v >= 1)) continue;
              Plan c = best;
              CellSpec &kc = c.circuit.cells[i];
              (f == 0 ? kc.x : f == 1 ? kc.y : f == 2 ? kc.w : kc.h) = cand;
              if (fails(c)) {
                best = c;
                improved = true;
                break;
              }
            }
            if (!improved) break;
          }
        }
      }
    }
    for (size_t i = 0; i < best.gops.size() && runs < budget; ++i)
      for (size_t a = 0; a < best.gops[i].a.size(); ++a)
        shrinkNum([i, a](Plan &p) -> long long * { return (i < p.gops.size() && a < p.gops[i].a.size()) ? &p.gops[i].a[a] : nullptr; });
    for (size_t i = 0; i < best.head.size() && runs < budget; ++i)
      shrinkNum([i](Plan &p) -> long long * { return i < p.head.size() ? &p.head[i] : nullptr; });
    return best;
  }
};

// Trace hashes of plans executed each in its own child forked from this
// (pristine) process, which never runs library code itself: executions without
// any in-process history.  Up to `par` children at a time.
std::map<long long, uint64_t> pristineHashes(const std::vector<std::pair<long long, Plan>> &jobs, int par, double timeoutSec) {
  std::map<long long, uint64_t> out;
  struct Child {
    pid_t pid;
    int fd;
    long long idx;
    std::string buf;
    double t0;
  };
  std::vector<Child> live;
  size_t next = 0;
  while (next < jobs.size() || !live.empty()) {
    while (next < jobs.size() && (int)live.size() < par) {
      int pfd[2];
      if (pipe(pfd) != 0) break;
      fflush(stdout);
      pid_t pid = fork();
      if (pid == 0) {
        close(pfd[0]);
        for (auto &c : live) close(c.fd);
        int nul = open("/dev/null", O_WRONLY);
        if (nul >= 0) dup2(nul, 2);
        ExecResult r = executePlan(jobs[next].second);
        std::string s = std::to_string(r.traceHash) + "\n";
        if (write(pfd[1], s.data(), s.size()) < 0) _exit(3);
        _exit(0);
      }
      close(pfd[1]);
      live.push_back({pid, pfd[0], jobs[next].first, "", nowSec()});
      ++next;
    }
    std::vector<struct pollfd> pf;
    for (auto &c : live) pf.push_back({c.fd, POLLIN, 0});
    poll(pf.data(), pf.size(), 100);
    for (size_t k = 0; k < live.size();) {
      bool done = false;
      if (pf.size() > k && (pf[k].revents & (POLLIN | POLLHUP))) {
        char tmp[256];
        ssize_t n = read(live[k].fd, tmp, sizeof tmp);
        if (n > 0) live[k].buf.append(tmp, n);
        else done = true;
      }
      if (!done && nowSec() - live[k].t0 > timeoutSec) {
        kill(live[k].pid, SIGKILL);
        done = true;
      }
      if (done) {
        int st = 0;
        waitpid(live[k].pid, &st, 0);
        close(live[k].fd);
        if (!live[k].buf.empty() && WIFEXITED(st) && WEXITSTATUS(st) == 0) out[live[k].idx] = strtoull(live[k].buf.c_str(), nullptr, 10);
        live.erase(live.begin() + k);
        pf.erase(pf.begin() + k);
      } else {
        ++k;
      }
    }
  }
  return out;
}

// --------------------------------------------------------------- batch ----
struct BatchCfg {
  std::string prop;
  int tier = 0;
  long long runs = 100;
  uint64_t seed = 1;
  int workers = 16;
  std::string jsonOut;
  std::string replayDir = "/verif/replays";
  std::set<std::string> known;  // "PROP:clause" keys that are listed findings
  int detEvery = 16;            // every n-th run is executed twice and compared
  double runTimeout = 90;       // watchdog per run, in CPU seconds of the worker (see procCpuSeconds)
  double budgetSec = 0;         // optional wall-clock cap for the whole batch (0: none)
  int minimiseBudget = 250;
  int maxReports = 4;
  std::string only;             // restrict to one profile (debugging)
  std::string dumpHashes;       // write "idx tracehash" per run (determinism self-test)
  int histEvery = 0;            // C08: every n-th run is re-executed without process history and compared
};

struct RunSpec {
  std::string profile;
  uint64_t seed;
};

RunSpec runSpec(const BatchCfg &cfg, long long idx) {
  RunSpec rs;
  std::vector<ProfileMix> mix = profilesFor(cfg.prop);
  if (!cfg.only.empty()) mix = {{cfg.only, 1.0}};
  uint64_t h = mix64(mix64(cfg.seed, hashStr(cfg.prop)), (uint64_t)idx);
  rs.seed = h;
  double tot = 0;
  for (auto &m : mix) tot += m.weight;
  Rng r(mix64(h, 0xabcdef));
  double u = r.unit() * tot;
  rs.profile = mix.empty() ? cfg.prop : mix.back().profile;
  for (auto &m : mix) {
    if (u < m.weight) {
      rs.profile = m.profile;
      break;
    }
    u -= m.weight;
  }
  return rs;
}

struct Shared {
  std::atomic<long long> next;
  std::atomic<int> stop;
  CrashMarker markers[64];
};

struct Worker {
  pid_t pid = -1;
  int fd = -1;
  std::string buf;
  long long current = -1;
  double startedAt = 0;
  double cpuAtStart = 0, lastCpu = 0, lastAdvance = 0;
  std::string errPath;
  ExecResult partial;
  bool inResult = false;
  long long resultIdx = -1;
  bool nondet = false;
};

struct RunRecord {
  bool done = false;
  ExecResult res;
  bool crashed = false;
  CrashInfo crash;
  bool nondet = false;
};

void workerMain(int slot, Shared *sh, int outFd, const BatchCfg &cfg, const std::string &errPath) {
  int efd = open(errPath.c_str(), O_RDWR | O_CREAT | O_TRUNC, 0644);
  if (efd >= 0) {
    dup2(efd, 2);
    close(efd);
  }
  CrashMarker *mk = &sh->markers[slot];
  setCrashMarker(mk);
  auto emit = [&](const std::string &s) {
    size_t off = 0;
    while (off < s.size()) {
      ssize_t n = write(outFd, s.data() + off, s.size() - off);
      if (n <= 0) _exit(3);
      off += n;
    }
  };
  for (;;) {
    if (sh->stop.load()) break;
    long long idx = sh->next.fetch_add(1);
    if (idx >= cfg.runs) break;
    if (ftruncate(2, 0) == 0) lseek(2, 0, SEEK_SET);
    memset((void *)mk, 0, sizeof *mk);
    mk->run = idx;
    mk->op = -1;
    mk->opKind = -1;
    emit("B\t" + std::to_string(idx) + "\n");
    RunSpec rs = runSpec(cfg, idx);
    Plan plan = generatePlan(rs.profile, rs.seed, cfg.tier);
    ExecResult r = executePlan(plan);
    bool nondet = false;
    if (cfg.detEvery > 0 && idx % cfg.detEvery == 0) {
      ExecResult r2 = executePlan(plan);
      if (r2.traceHash != r.traceHash || (!r.schedDegraded && !r2.schedDegraded && r2.schedHashes != r.schedHashes)) nondet = true;
      r.stats.inc("determinism_double_runs");
    }
    std::string s = "R\t" + std::to_string(idx) + "\n" + serializeResult(r);
    if (nondet) s += "N\t1\n";
    s += "E\t" + std::to_string(idx) + "\n";
    emit(s);
  }
  _exit(0);
}

std::string jstr(const std::string &s) { return "\"" + jsonEscape(s) + "\""; }

}  // namespace

// ============================================================== replay ======
int replayMain(int argc, char **argv) {
  if (argc < 1) return 2;
  Plan p;
  std::string err;
  std::vector<Plan> multi;
  if (!planLoadMulti(argv[0], multi, err)) {
    fprintf(stderr, "cannot load plan: %s\n", err.c_str());
    return 2;
  }
  p = multi.back();
  if (multi.size() > 1) {
    // history replay: the last plan alone vs. after the earlier plans, in fresh processes
    mkdir(g_tmpDir.c_str(), 0755);
    std::vector<Plan> prefix(multi.begin(), multi.end() - 1);
    printf("history replay %s\n  last plan: %s\n  executed after %zu other plan(s) in the same process\n", argv[0], planSummary(p).c_str(), prefix.size());
    IsoResult a1 = runIsolated(p, 120), a2 = runIsolated(p, 120);
    IsoResult h1 = runIsolated(p, 120, &prefix), h2 = runIsolated(p, 120, &prefix);
    if (!a1.completed || !a2.completed || !h1.completed || !h2.completed) {
      printf("  an execution did not complete\n");
      return 2;
    }
    printf("  alone:        %s / %s\n  with history: %s / %s\n", hex64(a1.res.traceHash).c_str(), hex64(a2.res.traceHash).c_str(), hex64(h1.res.traceHash).c_str(), hex64(h2.res.traceHash).c_str());
    if (a1.res.traceHash != a2.res.traceHash || h1.res.traceHash != h2.res.traceHash) {
      printf("REPLAY-NONDETERMINISTIC\n");
      return 2;
    }
    if (a1.res.traceHash != h1.res.traceHash) {
      printf("REPRODUCED property=C08 clause=result-depends-on-process-history\n");
      return 1;
    }
    printf("NOT-REPRODUCED\n");
    return 0;
  }
  std::string expectProp, expectClause;
  for (int i = 1; i + 1 < argc; ++i)
    if (!strcmp(argv[i], "--tmp")) g_tmpDir = argv[i + 1];
  for (int i = 1; i + 1 < argc; ++i)
    if (!strcmp(argv[i], "--expect")) {
      std::string e = argv[i + 1];
      size_t c = e.find(':');
      expectProp = e.substr(0, c);
      if (c != std::string::npos) expectClause = e.substr(c + 1);
    }
  mkdir(g_tmpDir.c_str(), 0755);
  printf("replay %s\n  %s\n", argv[0], planSummary(p).c_str());
  IsoResult a = runIsolated(p, 120), b = runIsolated(p, 120);
  auto show = [&](const IsoResult &r, const char *tag) {
    if (r.completed) {
      printf("  [%s] completed, trace hash %s, %zu verdict(s)\n", tag, hex64(r.res.traceHash).c_str(), r.res.verdicts.size());
      for (auto &v : r.res.verdicts) printf("    VERDICT %s %s op=%d: %s\n", v.prop.c_str(), v.clause.c_str(), v.op, v.detail.c_str());
    } else {
      printf("  [%s] process died: %s (op %d, phase %d)\n", tag, r.crash.key().c_str(), r.crash.marker.op, r.crash.marker.phase);
      printf("%s", r.crash.tail.c_str());
    }
  };
  show(a, "run 1");
  show(b, "run 2");
  bool same = a.completed == b.completed && (a.completed ? a.res.traceHash == b.res.traceHash : a.crash.key() == b.crash.key());
  if (!same) {
    printf("REPLAY-NONDETERMINISTIC the two executions differ\n");
    return 2;
  }
  bool violated = false;
  if (!expectProp.empty()) {
    VClass c = classOf(expectProp, p, a, expectClause);
    violated = c.any;
    if (violated) printf("REPRODUCED property=%s clause=%s: %s\n", c.prop.c_str(), c.clause.c_str(), c.detail.c_str());
    else printf("NOT-REPRODUCED property=%s\n", expectProp.c_str());
  } else {
    violated = !a.completed || !a.res.verdicts.empty();
  }
  return violated ? 1 : 0;
}

int genRunMain(int argc, char **argv) {
  BatchCfg cfg;
  long long index = 0;
  for (int i = 0; i < argc; ++i) {
    std::string a = argv[i];
    auto next = [&]() -> std::string { return i + 1 < argc ? argv[++i] : ""; };
    if (a == "--prop") cfg.prop = next();
    else if (a == "--tier") { std::string t = next(); cfg.tier = t == "thorough" ? 1 : t == "large" ? 2 : 0; }
    else if (a == "--seed") cfg.seed = strtoull(next().c_str(), nullptr, 10);
    else if (a == "--index") index = atoll(next().c_str());
    else if (a == "--only") cfg.only = next();
  }
  RunSpec rs = runSpec(cfg, index);
  Plan plan = generatePlan(rs.profile, rs.seed, cfg.tier);
  fputs(planToText(plan).c_str(), stdout);
  return 0;
}

// =============================================================== batch ======
int batchMain(int argc, char **argv) {
  BatchCfg cfg;
  for (int i = 0; i < argc; ++i) {
    std::string a = argv[i];
    auto next = [&]() -> std::string { return i + 1 < argc ? argv[++i] : ""; };
    if (a == "--prop") cfg.prop = next();
    else if (a == "--tier") { std::string t = next(); cfg.tier = t == "thorough" ? 1 : t == "large" ? 2 : 0; }
    else if (a == "--runs") cfg.runs = atoll(next().c_str());
    else if (a == "--seed") cfg.seed = strtoull(next().c_str(), nullptr, 10);
    else if (a == "--workers") cfg.workers = atoi(next().c_str());
    else if (a == "--json") cfg.jsonOut = next();
    else if (a == "--replay-dir") cfg.replayDir = next();
    else if (a == "--known") cfg.known.insert(next());
    else if (a == "--det-every") cfg.detEvery = atoi(next().c_str());
    else if (a == "--run-timeout") cfg.runTimeout = atof(next().c_str());
    else if (a == "--budget-sec") cfg.budgetSec = atof(next().c_str());
    else if (a == "--minimise-budget") cfg.minimiseBudget = atoi(next().c_str());
    else if (a == "--max-reports") cfg.maxReports = atoi(next().c_str());
    else if (a == "--only") cfg.only = next();
    else if (a == "--tmp") g_tmpDir = next();
    else if (a == "--dump-hashes") cfg.dumpHashes = next();
    else if (a == "--hist-every") cfg.histEvery = atoi(next().c_str());
  }
  if (cfg.prop.empty() || profilesFor(cfg.prop).empty()) {
    fprintf(stderr, "batch: unknown property '%s'\n", cfg.prop.c_str());
    return 2;
  }
  cfg.workers = std::max(1, std::min(cfg.workers, 64));
  mkdir(g_tmpDir.c_str(), 0755);
  mkdir(cfg.replayDir.c_str(), 0755);
  double t0 = nowSec();
  printf("VERIF_SEED=%llu property=%s tier=%s flavour=%s runs=%lld workers=%d\n", (unsigned long long)cfg.seed, cfg.prop.c_str(), cfg.tier ? "thorough" : "quick", VERIF_FLAVOUR, cfg.runs, cfg.workers);
  fflush(stdout);

  Shared *sh = (Shared *)mmap(nullptr, sizeof(Shared), PROT_READ | PROT_WRITE, MAP_SHARED | MAP_ANONYMOUS, -1, 0);
  new (&sh->next) std::atomic<long long>(0);
  new (&sh->stop) std::atomic<int>(0);
  std::vector<Worker> ws(cfg.workers);
  std::map<long long, RunRecord> recs;
  std::function<void(const Worker *)> slotHistoryClear = [](const Worker *) {};
  auto spawn = [&](int slot) {
    int pfd[2];
    if (pipe(pfd) != 0) return;
    Worker &w = ws[slot];
    w.errPath = g_tmpDir + "/w" + std::to_string(getpid()) + "-" + std::to_string(slot) + ".err";
    fflush(stdout);
    pid_t pid = fork();
    if (pid == 0) {
      close(pfd[0]);
      for (auto &o : ws)
        if (o.fd >= 0) close(o.fd);
      workerMain(slot, sh, pfd[1], cfg, w.errPath);
      _exit(0);
    }
    close(pfd[1]);
    fcntl(pfd[0], F_SETFL, O_NONBLOCK);
    w.pid = pid;
    w.fd = pfd[0];
    slotHistoryClear(&w);
    w.buf.clear();
    w.current = -1;
    w.inResult = false;
  };
  for (int s = 0; s < cfg.workers; ++s) spawn(s);
  int alive = cfg.workers;
  long long respawns = 0;
  double slowestRun = 0;
  long long slowestIdx = -1;
  long long timeouts = 0, deaths = 0;
  // ---- aggregation (on the fly: only runs that need a second look are kept) ----
  Counters stats;
  std::set<uint64_t> traceHashes, stateHashes, schedHashes;
  long long executed = 0, invalid = 0, crashedRuns = 0, nondetRuns = 0, nontrivial = 0;
  std::map<std::string, long long> otherProps;
  std::vector<long long> candidates;
  std::map<std::string, long long> unattributed;
  std::vector<std::string> hashDump;
  const std::string evalKey = "oracle_evals_" + cfg.prop;
  auto absorb = [&](long long idx, const ExecResult &res, bool nondet) {
    ++executed;
    if (nondet) ++nondetRuns;
    if (!cfg.dumpHashes.empty()) hashDump.push_back(std::to_string(idx) + " " + hex64(res.detHash()) + " " + std::to_string(res.verdicts.size()));
    if (res.invalidPlan) {
      ++invalid;
      return;
    }
    stats.merge(res.stats);
    bool fresh = traceHashes.insert(res.traceHash).second;
    if (stateHashes.size() < 2000000)
      for (auto h : res.stateHashes) stateHashes.insert(h);
    for (auto h : res.schedHashes) schedHashes.insert(h);
    if (fresh && res.stats.get(evalKey) > 0) ++nontrivial;
    bool mine = false;
    for (auto &v : res.verdicts) {
      if (v.prop == cfg.prop) mine = true;
      else otherProps[v.prop + ":" + v.clause]++;
    }
    if (mine) {
      RunRecord &rr = recs[idx];
      rr.done = true;
      rr.res = res;
      rr.res.stats = Counters();
      rr.res.stateHashes.clear();
      candidates.push_back(idx);
    }
  };
  std::map<const Worker *, std::vector<long long>> slotHistory;  // runs executed so far by the live process of a slot
  std::map<long long, std::vector<long long>> historyOf;         // sampled run -> runs its process executed before it
  std::map<long long, uint64_t> phase1Hash;
  slotHistoryClear = [&](const Worker *w) { slotHistory[w].clear(); };
  auto handleLine = [&](Worker &w, const std::string &line) {
    if (line.size() >= 2 && line[0] == 'B' && line[1] == '\t') {
      w.current = atoll(line.c_str() + 2);
      w.startedAt = nowSec();
      w.cpuAtStart = std::max(0.0, procCpuSeconds(w.pid));
      w.lastCpu = w.cpuAtStart;
      w.lastAdvance = w.startedAt;
      if (cfg.histEvery > 0) {
        auto &h = slotHistory[&w];
        if (w.current % cfg.histEvery == 0) {
          size_t from = h.size() > 40 ? h.size() - 40 : 0;
          historyOf[w.current] = std::vector<long long>(h.begin() + from, h.end());
        }
        h.push_back(w.current);
      }
      return;
    }
    if (line.size() >= 2 && line[0] == 'R' && line[1] == '\t') {
      w.inResult = true;
      w.resultIdx = atoll(line.c_str() + 2);
      w.partial = ExecResult();
      w.nondet = false;
      return;
    }
    if (line.size() >= 2 && line[0] == 'N' && line[1] == '\t') {
      w.nondet = true;
      return;
    }
    if (line.size() >= 2 && line[0] == 'E' && line[1] == '\t') {
      double took = nowSec() - w.startedAt;
      if (took > slowestRun) {
        slowestRun = took;
        slowestIdx = w.resultIdx;
      }
      if (cfg.histEvery > 0 && w.resultIdx % cfg.histEvery == 0 && !w.partial.invalidPlan) phase1Hash[w.resultIdx] = w.partial.traceHash;
      absorb(w.resultIdx, w.partial, w.nondet);
      w.inResult = false;
      w.current = -1;
      return;
    }
    if (w.inResult) parseResultLine(line, w.partial);
  };
  while (alive > 0) {
    std::vector<struct pollfd> pfds;
    std::vector<int> slots;
    for (int s = 0; s < cfg.workers; ++s)
      if (ws[s].fd >= 0) {
        pfds.push_back({ws[s].fd, POLLIN, 0});
        slots.push_back(s);
      }
    if (pfds.empty()) break;
    poll(pfds.data(), pfds.size(), 200);
    for (size_t k = 0; k < pfds.size(); ++k) {
      Worker &w = ws[slots[k]];
      bool eof = false;
      if (pfds[k].revents & (POLLIN | POLLHUP)) {
        char tmp[65536];
        for (;;) {
          ssize_t n = read(w.fd, tmp, sizeof tmp);
          if (n > 0) {
            w.buf.append(tmp, n);
            continue;
          }
          if (n == 0) eof = true;
          break;
        }
        size_t p;
        while ((p = w.buf.find('\n')) != std::string::npos) {
          std::string line = w.buf.substr(0, p);
          w.buf.erase(0, p + 1);
          handleLine(w, line);
        }
      }
      bool timedOut = false;
      if (!eof && w.current >= 0 && nowSec() - w.startedAt > 2.0) {
        double cpu = procCpuSeconds(w.pid);
        if (cpu > w.lastCpu + 0.2) {
          w.lastCpu = cpu;
          w.lastAdvance = nowSec();
        }
        bool overBudget = cpu >= 0 && cpu - w.cpuAtStart > cfg.runTimeout;           // CPU seconds
        bool stalled = nowSec() - w.lastAdvance > std::max(30.0, cfg.runTimeout);    // burns no CPU: dead-lock
        bool absurd = nowSec() - w.startedAt > 20 * cfg.runTimeout;
        if (overBudget || stalled || absurd) {
          kill(w.pid, SIGKILL);
          timedOut = true;
          eof = true;
        }
      }
      if (eof) {
        int status = 0;
        waitpid(w.pid, &status, 0);
        close(w.fd);
        w.fd = -1;
        bool normal = WIFEXITED(status) && WEXITSTATUS(status) == 0 && w.current < 0;
        if (!normal && w.current >= 0) {
          RunRecord &rr = recs[w.current];
          rr.crashed = true;
          rr.crash.timeout = timedOut;
          rr.crash.marker = sh->markers[slots[k]];
          classifyCrash(rr.crash, status, readFile(w.errPath));
          ++deaths;
          if (timedOut) ++timeouts;
          // fail fast: the violation is established, do not burn the budget on
          // hundreds of further watchdog waits or sanitizer reports
          if (timeouts >= 3 || deaths >= 300) sh->stop.store(1);
        }
        unlink(w.errPath.c_str());
        bool more = sh->next.load() < cfg.runs && !sh->stop.load();
        if (!normal && more) {
          ++respawns;
          spawn(slots[k]);
        } else {
          --alive;
        }
      }
    }
    if (cfg.budgetSec > 0 && nowSec() - t0 > cfg.budgetSec) sh->stop.store(1);
  }
  double tRun = nowSec() - t0;

  // ---- crashed runs ----
  for (auto &kv : recs) {
    RunRecord &rr = kv.second;
    if (!rr.crashed) continue;
    ++crashedRuns;
    ++executed;
    if (!cfg.dumpHashes.empty()) hashDump.push_back(std::to_string(kv.first) + " crash " + rr.crash.key());
    RunSpec rs = runSpec(cfg, kv.first);
    Plan plan = generatePlan(rs.profile, rs.seed, cfg.tier);
    Verdict v;
    if (crashVerdict(cfg.prop, plan, rr.crash, v)) candidates.push_back(kv.first);
    else unattributed[rr.crash.key()]++;
  }
  std::sort(candidates.begin(), candidates.end());

  if (!cfg.dumpHashes.empty()) {
    std::sort(hashDump.begin(), hashDump.end(), [](const std::string &x, const std::string &y) { return atoll(x.c_str()) < atoll(y.c_str()); });
    std::ofstream dh(cfg.dumpHashes);
    for (auto &l : hashDump) dh << l << "\n";
  }
  // ---- violations: gate, known findings, minimise, replay files ----
  int harnessProblems = 0;
  if (nondetRuns > 0) {
    printf("HARNESS-NONDETERMINISM %lld run(s) gave different trace hashes when executed twice\n", nondetRuns);
    ++harnessProblems;
  }
  struct Report {
    std::string clause, detail, replay, summary, minimisedSummary;
    long long idx;
    uint64_t seed;
    std::string profile;
    bool known;
    int minRuns;
  };
  std::vector<Report> reports;
  std::map<std::string, long long> classCounts;   // class key -> number of runs
  std::map<std::string, long long> classFirst;
  for (long long idx : candidates) {
    RunRecord &rr = recs[idx];
    RunSpec rs = runSpec(cfg, idx);
    Plan plan = generatePlan(rs.profile, rs.seed, cfg.tier);
    std::vector<std::string> keys;
    if (rr.crashed) {
      Verdict v;
      crashVerdict(cfg.prop, plan, rr.crash, v);
      keys.push_back(v.prop + ":" + v.clause + "|" + rr.crash.key());
    } else {
      for (auto &v : rr.res.verdicts)
        if (v.prop == cfg.prop) keys.push_back(v.prop + ":" + v.clause);
    }
    for (auto &k : keys) {
      classCounts[k]++;
      if (!classFirst.count(k)) classFirst[k] = idx;
    }
  }
  int unknownViolations = 0;
  std::set<std::string> knownPrinted;
  // ---- C08: independence of process history ----
  long long histCompared = 0, histMismatch = 0;
  if (cfg.histEvery > 0 && !phase1Hash.empty()) {
    std::vector<std::pair<long long, Plan>> jobs;
    for (auto &kv : phase1Hash) {
      RunSpec rs = runSpec(cfg, kv.first);
      jobs.emplace_back(kv.first, generatePlan(rs.profile, rs.seed, cfg.tier));
    }
    std::map<long long, uint64_t> fresh = pristineHashes(jobs, cfg.workers, cfg.runTimeout);
    std::vector<long long> differing;
    for (auto &kv : phase1Hash) {
      auto it = fresh.find(kv.first);
      if (it == fresh.end()) continue;
      ++histCompared;
      if (it->second != kv.second) {
        ++histMismatch;
        differing.push_back(kv.first);
      }
    }
    stats.inc("history_independence_comparisons", histCompared);
    bool reported = false;
    for (long long idx : differing) {
      if (reported) break;
      RunSpec rs = runSpec(cfg, idx);
      Plan plan = generatePlan(rs.profile, rs.seed, cfg.tier);
      // find one earlier run of the same worker process that is enough to change the result
      const std::vector<long long> &hist = historyOf[idx];
      IsoResult alone = runIsolated(plan, cfg.runTimeout);
      if (!alone.completed) continue;
      for (int k = (int)hist.size() - 1; k >= 0 && !reported; --k) {
        RunSpec rj = runSpec(cfg, hist[k]);
        std::vector<Plan> prefix = {generatePlan(rj.profile, rj.seed, cfg.tier)};
        IsoResult a = runIsolated(plan, cfg.runTimeout, &prefix), b = runIsolated(plan, cfg.runTimeout, &prefix);
        if (!a.completed || !b.completed) continue;
        if (a.res.traceHash == alone.res.traceHash || a.res.traceHash != b.res.traceHash) continue;
        IsoResult alone2 = runIsolated(plan, cfg.runTimeout);
        if (!alone2.completed || alone2.res.traceHash != alone.res.traceHash) continue;
        std::string path = cfg.replayDir + "/" + cfg.prop + "-result-depends-on-process-history-" + std::to_string(rs.seed) + ".plan";
        std::vector<Plan> both = {prefix[0], plan};
        planSaveMulti(path, both);
        Report rp;
        rp.clause = "result-depends-on-process-history";
        rp.detail = "the event trace of a run (all exposed states and results) differs when another, unrelated run was executed earlier in the same process: alone " + hex64(alone.res.traceHash) + ", after the other run " + hex64(a.res.traceHash);
        rp.replay = path;
        rp.idx = idx;
        rp.seed = rs.seed;
        rp.profile = rs.profile;
        rp.known = false;
        rp.summary = planSummary(plan);
        rp.minimisedSummary = "history: " + planSummary(prefix[0]) + " ; then: " + planSummary(plan);
        rp.minRuns = 0;
        reports.push_back(rp);
        ++unknownViolations;
        reported = true;
        printf("VIOLATION property=%s replay=%s\n", cfg.prop.c_str(), path.c_str());
        printf("  clause=result-depends-on-process-history seed=%llu profile=%s runs-with-this-class=%lld flavour=%s\n  %s\n  %s\n", (unsigned long long)rs.seed, rs.profile.c_str(), histMismatch, VERIF_FLAVOUR, rp.detail.c_str(), rp.minimisedSummary.c_str());
      }
    }
    if (histMismatch > 0 && !reported) {
      printf("HARNESS-UNREPRODUCED property=%s clause=result-depends-on-process-history: %lld run(s) differed from their history-free re-execution but no single earlier run reproduces it\n", cfg.prop.c_str(), histMismatch);
      ++harnessProblems;
    }
  }
  for (auto &kc : classFirst) {
    const std::string &key = kc.first;
    long long idx = kc.second;
    std::string pc = key.substr(0, key.find('|'));          // PROP:clause
    std::string clause = pc.substr(pc.find(':') + 1);
    bool isKnown = cfg.known.count(pc) > 0;
    RunSpec rs = runSpec(cfg, idx);
    Plan plan = generatePlan(rs.profile, rs.seed, cfg.tier);
    if (isKnown) {
      // confirm cheaply that the listed finding is what we see, then move on
      if (!knownPrinted.count(pc)) {
        knownPrinted.insert(pc);
        RunRecord &rr = recs[idx];
        std::string detail = rr.crashed ? rr.crash.key() : "";
        for (auto &v : rr.res.verdicts)
          if (v.prop == cfg.prop && v.clause == clause) detail = v.detail;
        printf("KNOWN-FINDING: property=%s clause=%s runs=%lld first=[profile %s seed %llu] %s\n", cfg.prop.c_str(), clause.c_str(), classCounts[key], rs.profile.c_str(), (unsigned long long)rs.seed, detail.c_str());
      }
      continue;
    }
    if ((int)reports.size() >= cfg.maxReports) {
      ++unknownViolations;
      continue;
    }
    // determinism gate: same plan, fresh processes, twice
    // a hang is reported only if the run, alone, burns twice the batch's CPU budget without finishing, two times
    double isoT = clause == "hang" ? 2 * cfg.runTimeout : std::max(60.0, cfg.runTimeout);
    IsoResult a = runIsolated(plan, isoT), b = runIsolated(plan, isoT);
    VClass ca = classOf(cfg.prop, plan, a, clause), cb = classOf(cfg.prop, plan, b, clause);
    bool sameTrace = a.completed == b.completed && (!a.completed || a.res.traceHash == b.res.traceHash);
    if (clause == "hang" && (!ca.any || !cb.any)) {
      // the batch watchdog is only a heuristic: the run finishes when it is alone, so it was slow, not hanging
      printf("NOTE a run stopped by the watchdog (profile %s seed %llu) finishes when executed alone: slow, not a hang\n", rs.profile.c_str(), (unsigned long long)rs.seed);
      continue;
    }
    if (!ca.any || !cb.any || ca.key() != cb.key() || !sameTrace) {
      printf("HARNESS-UNREPRODUCED property=%s clause=%s profile=%s seed=%llu: seen in the batch but not reproduced twice in fresh processes (%s / %s)\n", cfg.prop.c_str(), clause.c_str(), rs.profile.c_str(), (unsigned long long)rs.seed, ca.any ? ca.key().c_str() : "no violation", cb.any ? cb.key().c_str() : "no violation");
      ++harnessProblems;
      continue;
    }
    Minimiser mz;
    mz.prop = cfg.prop;
    mz.wantKey = ca.key();
    mz.budget = cfg.minimiseBudget;
    mz.deadline = nowSec() + (cfg.tier ? 240 : 90);
    // shrinking a hang costs one watchdog wait per surviving candidate: few attempts, short leash
    mz.isoTimeout = clause == "hang" ? 15.0 : std::max(60.0, cfg.runTimeout);
    if (clause == "hang") mz.budget = std::min(mz.budget, 6);
    Plan small = mz.run(plan);
    // the minimised plan must still fail, identically, twice
    double verT = clause == "hang" ? 45.0 : isoT;  // the original plan already passed the full gate
    IsoResult m1 = runIsolated(small, verT), m2 = runIsolated(small, verT);
    VClass c1 = classOf(cfg.prop, small, m1, clause), c2 = classOf(cfg.prop, small, m2, clause);
    if (!c1.any || !c2.any || c1.key() != c2.key()) small = plan, c1 = ca;
    std::string path = cfg.replayDir + "/" + cfg.prop + "-" + clause + "-" + std::to_string(rs.seed) + ".plan";
    for (char &ch : path)
      if (ch == ' ' || ch == '|') ch = '_';
    planSave(path, small);
    Report rp;
    rp.clause = clause;
    rp.detail = c1.detail;
    rp.replay = path;
    rp.idx = idx;
    rp.seed = rs.seed;
    rp.profile = rs.profile;
    rp.known = false;
    rp.summary = planSummary(plan);
    rp.minimisedSummary = planSummary(small);
    rp.minRuns = mz.runs;
    reports.push_back(rp);
    ++unknownViolations;
    printf("VIOLATION property=%s replay=%s\n", cfg.prop.c_str(), path.c_str());
    printf("  clause=%s seed=%llu profile=%s runs-with-this-class=%lld flavour=%s\n  %s\n  original: %s\n  minimised (%d re-executions): %s\n", clause.c_str(), (unsigned long long)rs.seed, rs.profile.c_str(), classCounts[key], VERIF_FLAVOUR, c1.detail.c_str(), rp.summary.c_str(), mz.runs, rp.minimisedSummary.c_str());
    fflush(stdout);
  }
  for (auto &u : unattributed)
    printf("NOTE process death in %lld run(s) that this property does not cover (%s): %s\n", u.second, cfg.prop == "C07" ? "op started outside the C07 domain" : "C07 territory", u.first.c_str());
  for (auto &o : otherProps)
    printf("NOTE oracle of another property fired in %lld run(s) (not reported by this check): %s\n", o.second, o.first.c_str());

  double wall = nowSec() - t0;
  // ---- per-flavour evidence record ----
  if (!cfg.jsonOut.empty()) {
    std::ostringstream js;
    js << "{\n";
    js << " \"property_id\": " << jstr(cfg.prop) << ",\n \"flavour\": " << jstr(VERIF_FLAVOUR) << ",\n \"tier\": " << jstr(cfg.tier ? "thorough" : "quick") << ",\n";
    js << " \"seed\": " << cfg.seed << ",\n \"runs_requested\": " << cfg.runs << ",\n \"runs_executed\": " << executed << ",\n";
    js << " \"invalid_plans\": " << invalid << ",\n \"crashed_runs\": " << crashedRuns << ",\n \"worker_respawns\": " << respawns << ",\n";
    js << " \"distinct_traces\": " << traceHashes.size() << ",\n \"distinct_nontrivial\": " << nontrivial << ",\n";
    js << " \"distinct_exposed_states_sampled\": " << stateHashes.size() << ",\n \"distinct_schedules\": " << schedHashes.size() << ",\n";
    js << " \"nondeterministic_double_runs\": " << nondetRuns << ",\n \"harness_problems\": " << harnessProblems << ",\n";
    js << " \"slowest_run_s\": " << slowestRun << ",\n \"stopped_early\": " << (sh->stop.load() ? "true" : "false") << ",\n";
    js << " \"wall_s\": " << wall << ",\n \"run_phase_s\": " << tRun << ",\n \"runs_per_hour\": " << (tRun > 0 ? executed * 3600.0 / tRun : 0) << ",\n";
    js << " \"history_independence_comparisons\": " << histCompared << ",\n \"history_independence_mismatches\": " << histMismatch << ",\n";
    js << " \"violations\": " << unknownViolations << ",\n";
    js << " \"known_findings_matched\": [";
    {
      bool first = true;
      for (auto &k : knownPrinted) {
        js << (first ? "" : ", ") << jstr(k);
        first = false;
      }
    }
    js << "],\n \"violation_classes\": {";
    {
      bool first = true;
      for (auto &k : classCounts) {
        js << (first ? "" : ", ") << jstr(k.first) << ": " << k.second;
        first = false;
      }
    }
    js << "},\n \"other_property_oracles_fired\": {";
    {
      bool first = true;
      for (auto &k : otherProps) {
        js << (first ? "" : ", ") << jstr(k.first) << ": " << k.second;
        first = false;
      }
    }
    js << "},\n \"unattributed_crashes\": {";
    {
      bool first = true;
      for (auto &k : unattributed) {
        js << (first ? "" : ", ") << jstr(k.first) << ": " << k.second;
        first = false;
      }
    }
    js << "},\n \"reports\": [";
    for (size_t i = 0; i < reports.size(); ++i) {
      auto &r = reports[i];
      js << (i ? ", " : "") << "{\"clause\": " << jstr(r.clause) << ", \"seed\": " << r.seed << ", \"profile\": " << jstr(r.profile) << ", \"replay\": " << jstr(r.replay) << ", \"detail\": " << jstr(r.detail) << ", \"minimised\": " << jstr(r.minimisedSummary) << "}";
    }
    js << "],\n \"stats\": {";
    {
      bool first = true;
      for (auto &k : stats.c) {
        js << (first ? "" : ", ") << jstr(k.first) << ": " << k.second;
        first = false;
      }
    }
    js << "},\n \"samples\": [";
    {
      int shown = 0;
      for (long long i = 0; i < cfg.runs && shown < 5; i += std::max<long long>(1, cfg.runs / 5)) {
        RunSpec rs = runSpec(cfg, i);
        Plan plan = generatePlan(rs.profile, rs.seed, cfg.tier);
        js << (shown ? ", " : "") << jstr(planSummary(plan));
        ++shown;
      }
    }
    js << "]\n}\n";
    std::ofstream out(cfg.jsonOut);
    out << js.str();
  }
  printf("NOTE slowest run %.1fs (index %lld)%s\n", slowestRun, slowestIdx, sh->stop.load() ? "; batch stopped early (fail fast)" : "");
  printf("SUMMARY property=%s flavour=%s executed=%lld invalid=%lld crashed=%lld distinct_traces=%zu nontrivial=%lld schedules=%zu violations=%d known=%zu harness_problems=%d wall=%.1fs (%.0f runs/h)\n", cfg.prop.c_str(), VERIF_FLAVOUR, executed, invalid, crashedRuns, traceHashes.size(), nontrivial, schedHashes.size(), unknownViolations, knownPrinted.size(), harnessProblems, wall, tRun > 0 ? executed * 3600.0 / tRun : 0.0);
  if (unknownViolations > 0) return 1;
  if (harnessProblems > 0) return 2;
  return 0;
}

}  // namespace sim
