#pragma once
namespace sim {
int batchMain(int argc, char **argv);
int replayMain(int argc, char **argv);
// print the plan of run <index> of a batch: --prop P --seed S --tier T --index I
int genRunMain(int argc, char **argv);
}
