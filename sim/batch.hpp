#pragma once
namespace sim {
int batchMain(int argc, char **argv);
int replayMain(int argc, char **argv);
}
