#include "exec.hpp"

#include <sstream>

namespace sim {

ExecResult executePlan(const Plan &plan, const ExecOptions &opt) {
  ExecResult res;
  if (plan.kind == "circuit") execCircuit(plan, opt, res);
  else if (plan.kind == "c08") execC08(plan, opt, res);
  else if (plan.kind == "rowleg") execRowLeg(plan, opt, res);
  else if (plan.kind == "density") execDensity(plan, opt, res);
  else if (plan.kind == "incr") execIncr(plan, opt, res);
  else if (plan.kind == "dplacer") execDPlacer(plan, opt, res);
  else {
    res.invalidPlan = true;
    res.invalidWhy = "unknown plan kind " + plan.kind;
  }
  return res;
}

}  // namespace sim
