// execute(plan) -> verdicts + trace.  Pure function of the plan.
#pragma once
#include <cstdint>
#include <set>
#include <string>
#include <vector>

#include "plan.hpp"
#include "util.hpp"

namespace sim {

struct Verdict {
  std::string prop;    // C01..C19
  std::string clause;  // short stable identifier of the violated clause
  std::string detail;  // human readable, deterministic
  int op = -1;         // op index the verdict belongs to
};

struct ExecResult {
  std::vector<Verdict> verdicts;
  bool invalidPlan = false;     // the plan could not be set up at all
  std::string invalidWhy;
  uint64_t traceHash = 0;
  Counters stats;               // fault kinds fired, probes, ticks ...
  std::vector<uint64_t> stateHashes;  // exposed states (bounded sample)
  std::vector<uint64_t> schedHashes;  // per-op grant sequence hashes (not part of traceHash, see detHash)
  bool schedDegraded = false;         // the scheduler had given up in this process (sched.cpp): schedHashes mean nothing
  // Hash used to compare two executions of the same plan for determinism: the event trace
  // plus the grant sequences the scheduler produced.  The grant sequences are left out of
  // traceHash itself because traceHash is also compared between processes with different
  // histories, and a scheduler that gave up earlier in a process produces none.
  uint64_t detHash() const {
    if (schedDegraded) return traceHash;
    uint64_t h = traceHash;
    for (auto g : schedHashes) h = mix64(h, g);
    return h;
  }
  std::vector<std::string> trace;     // textual trace (bounded)
};

struct ExecOptions {
  bool keepTrace = false;   // record textual trace lines
  bool echoTrace = false;   // print them to stderr as they happen
};

// Progress marker that survives a crash of the process executing the plan:
// a block of shared memory the parent can read after the worker died.
struct CrashMarker {
  volatile long long run;     // run index (worker pool) or -1
  volatile int op;            // current op index
  volatile int opKind;        // OpKind or -1
  volatile int sub;           // op specific (bad call kind, callback index...)
  volatile int phase;         // 0 idle 1 in library 2 in callback agent 3 in oracle
  volatile int dom07;         // 1: the state the current op started from is inside the C07 domain
  volatile int dom06;         // 1: ... inside the C06 domain (global placement ops)
  char note[96];
};
void setCrashMarker(CrashMarker *m);
CrashMarker *crashMarker();

ExecResult executePlan(const Plan &plan, const ExecOptions &opt = ExecOptions());

// the individual worlds
void execCircuit(const Plan &plan, const ExecOptions &opt, ExecResult &res);
void execC08(const Plan &plan, const ExecOptions &opt, ExecResult &res);
void execRowLeg(const Plan &plan, const ExecOptions &opt, ExecResult &res);
void execDensity(const Plan &plan, const ExecOptions &opt, ExecResult &res);
void execIncr(const Plan &plan, const ExecOptions &opt, ExecResult &res);
void execDPlacer(const Plan &plan, const ExecOptions &opt, ExecResult &res);

// Trace helper shared by the worlds
struct Tracer {
  ExecResult &res;
  const ExecOptions &opt;
  HashChain chain;
  Tracer(ExecResult &r, const ExecOptions &o) : res(r), opt(o) {}
  void ev(const std::string &line);
  void note(const std::string &line);  // shown in textual traces, not hashed
  void finish() { res.traceHash = chain.h; }
};

// stdout sink management
void stdoutSinkInstall();
void stdoutSinkSetBad(bool bad);
long long stdoutSinkChars();

}  // namespace sim
