// The circuit world: a client task drives one long-lived Circuit through the
// public API; a scripted callback agent runs inside every placement call; the
// solver threads are under the scheduler; clock, stdout, entropy and the
// allocator are simulated seams.  Oracles are evaluated at every callback and
// after every op.
#include <sched.h>

#include <climits>
#include <cmath>
#include <cstring>
#include <functional>
#include <iostream>
#include <new>
#include <optional>
#include <sstream>
#include <stdexcept>

#include "coloquinte.hpp"
#include "exec.hpp"
#include "sched.hpp"
#include "world.hpp"

namespace sim {
using namespace coloquinte;

// --------------------------------------------------------------- helpers --
namespace {

struct NullBuf : std::streambuf {
  long long chars = 0;
  int overflow(int c) override {
    ++chars;
    return c == EOF ? 0 : c;
  }
  std::streamsize xsputn(const char *, std::streamsize n) override {
    chars += n;
    return n;
  }
};
NullBuf &g_sink = *new NullBuf;  // never destroyed: std::cout is flushed after static destructors ran
bool g_sinkInstalled = false;
CrashMarker g_localMarker;
CrashMarker *g_marker = &g_localMarker;

struct LivenessAbort {};

const char *stepName(PlacementStep s) {
  switch (s) {
    case PlacementStep::LowerBound: return "LB";
    case PlacementStep::UpperBound: return "UB";
    case PlacementStep::Detailed: return "DET";
    case PlacementStep::PenaltyUpdate: return "PEN";
  }
  return "?";
}

struct Outcome {
  int kind = 0;  // 0 returned, 1 std::exception, 2 non-std exception
  std::string type;
  std::string what;
  bool returned() const { return kind == 0; }
  std::string str() const {
    if (kind == 0) return "returned";
    return "threw " + type + (what.empty() ? "" : "(" + what + ")");
  }
};

template <class F>
Outcome guarded(F &&f) {
  Outcome o;
  try {
    f();
  } catch (...) {
    // from here on we are in harness code again: injected allocation failures
    // are for the library only (the handler below allocates strings)
    allocLibraryMode(false);
    try {
      throw;
    } catch (const LivenessAbort &) {
      o.kind = 2;
      o.type = "LivenessAbort";
    } catch (const std::bad_alloc &) {
      o.kind = 1;
      o.type = "bad_alloc";
    } catch (const std::runtime_error &e) {
      o.kind = 1;
      o.type = "runtime_error";
      o.what = e.what();
    } catch (const std::logic_error &e) {
      o.kind = 1;
      o.type = "logic_error";
      o.what = e.what();
    } catch (const std::exception &e) {
      o.kind = 1;
      o.type = "exception";
      o.what = e.what();
    } catch (int v) {
      o.kind = 2;
      o.type = "int";
      o.what = std::to_string(v);
    } catch (...) {
      o.kind = 2;
      o.type = "unknown";
    }
  }
  return o;
}

}  // namespace

void setCrashMarker(CrashMarker *m) { g_marker = m ? m : &g_localMarker; }
CrashMarker *crashMarker() { return g_marker; }

void stdoutSinkInstall() {
  if (!g_sinkInstalled) {
    std::cout.rdbuf(&g_sink);
    g_sinkInstalled = true;
  }
}
void stdoutSinkSetBad(bool bad) {
  if (bad)
    std::cout.setstate(std::ios::badbit);
  else
    std::cout.clear();
}
long long stdoutSinkChars() { return g_sink.chars; }

void Tracer::ev(const std::string &line) {
  chain.addStr(line);
  if (opt.keepTrace && res.trace.size() < 4000) res.trace.push_back(line);
  if (opt.echoTrace) fprintf(stderr, "  | %s\n", line.c_str());
}

void Tracer::note(const std::string &line) {
  if (opt.keepTrace && res.trace.size() < 4000) res.trace.push_back(line);
  if (opt.echoTrace) fprintf(stderr, "  | %s\n", line.c_str());
}

// ------------------------------------------------------------ the world ---
namespace {

class CircuitExec {
 public:
  CircuitExec(const Plan &plan, const ExecOptions &opt, ExecResult &res)
      : plan_(plan), opt_(opt), res_(res), tr_(res, opt) {}

  void run();

  // Result of running one placement stage on some circuit object
  struct StageRun {
    Outcome out;
    int callbacks = 0;
    bool agentThrew = false;
    bool allocFaultFired = false;
    bool paramsRejected = false;   // parameter set does not pass check()
    bool agentMutated = false;     // agent did more than observe/throw
    bool resized = false;
    bool realResize = false;       // agent changed cell widths in a global-placement callback
    int paramsPoisonedAt = -1;     // agent wrote an out-of-range value into the caller's parameter object at this callback
    bool liveness = false;
    Snapshot pre, post;
    SchedStats sched;
  };

  // throwAt >= 0: the agent throws at that callback index (kind throwKind)
  StageRun runStage(Circuit &c, int opIndex, const Op &op, int throwAt, int throwKind,
                    bool nested, const std::string &tag);

 private:
  void verdict(const std::string &prop, const std::string &clause, const std::string &detail, int op) {
    // one verdict per (prop, clause, op) is enough
    for (auto &v : res_.verdicts)
      if (v.prop == prop && v.clause == clause && v.op == op) return;
    Verdict v;
    v.prop = prop;
    v.clause = clause;
    v.detail = detail;
    v.op = op;
    res_.verdicts.push_back(v);
    tr_.ev("VERDICT " + prop + " " + clause + " op" + std::to_string(op) + ": " + detail);
  }
  void stat(const std::string &k, long long d = 1) { res_.stats.inc(k, d); }
  void evald(const char *prop) { res_.stats.inc(std::string("oracle_evals_") + prop); }
  void noteState(uint64_t h) {
    if (res_.stateHashes.size() < 64) res_.stateHashes.push_back(h);
    stat("states_exposed");
  }

  void protocolAfter(Circuit &c, int opIndex, const std::string &how);
  void pokeInCallback(Circuit &c, int opIndex, int k);
  void badCall(Circuit &c, int opIndex, int kind, long long variant, bool inCallback, const ParamSpec *ctx = nullptr);
  void doPerturb(Circuit &c, const Op &op);
  void doSetOrient(Circuit &c, const Op &op);
  StageRun enumerateThrows(Circuit &c, int opIndex, const Op &op);
  void furtherCallAgrees(Circuit &a, int opIndex, int k);

  const Plan &plan_;
  const ExecOptions &opt_;
  ExecResult &res_;
  Tracer tr_;
  int nestDepth_ = 0;
  std::function<void(int)> hook_;  // extra work at callback k of the outermost stage (C08 nesting)

 public:
  void runC08();
};

// Budget of callbacks of one stage, from its parameters (bounded liveness).  The count
// below is what the library does today; the property only says that a call ends, so the
// verdict is raised at eight times that count plus 64 (a library that reports progress more
// often keeps the property; one that never stops calling back does not).
long long callbackBudgetLimit(long long budget) { return 8 * budget + 64; }
long long callbackBudget(int stage, const ColoquinteParameters &p) {
  if (stage == 0) {
    long long init = p.global.nbInitialSteps, mx = p.global.maxNbSteps,
              per = p.global.nbStepsBeforeRoughLegalization;
    long long iters = std::max(0LL, mx - init);
    return 1 + init + iters * (2 + per) + 1;
  }
  if (stage == 1) return 1;
  return 1 + 3LL * std::max(0, p.detailed.nbPasses);
}

bool paramsPassCheck(const ColoquinteParameters &p) {
  try {
    p.check();
    return true;
  } catch (const std::exception &) {
    return false;
  }
}

// C06 "numerically moderate box"
bool paramsModerate(const ColoquinteParameters &p) {
  return p.global.continuousModel.conjugateGradientErrorTolerance >= 1e-6 &&
         p.global.continuousModel.approximationDistance >= 0.1 && p.global.penalty.cutoffDistance >= 0.1;
}

}  // namespace

// ---------------------------------------------------------------- stage ---
CircuitExec::StageRun CircuitExec::runStage(Circuit &c, int opIndex, const Op &op, int throwAt,
                                            int throwKind, bool nested, const std::string &tag) {
  StageRun r;
  int stage = op.kind == OP_GLOBAL ? 0 : (op.kind == OP_LEGALIZE ? 1 : 2);
  CrashMarker *mk = crashMarker();
  if (!nested) {
    mk->op = opIndex;
    mk->opKind = op.kind;
    mk->sub = -1;
  }
  r.pre = takeSnapshot(c);
  FreeSpace fsPre = computeFree(r.pre);

  // Parameters.  Effort is in range for stage ops (bad efforts are C19 ops).
  ParamSpec ps = op.params;
  if (ps.effort < 1 || ps.effort > 9) ps.effort = 3;
  ColoquinteParameters params = buildParams(ps);
  r.paramsRejected = !refParamsValid(params);
  if (r.paramsRejected && paramsPassCheck(params)) {
    std::string why;
    refParamsValid(params, &why);
    verdict("C19", "rejected-params-accepted", tag + ": *Parameters::check() accepts a parameter set outside the documented ranges (" + why + ")", opIndex);
  }
  Domain dom = classify(r.pre, fsPre, params.global.roughLegalization.sideMargin);
  bool moderate = paramsModerate(params);
  long long budget = callbackBudget(stage, params);
  if (!nested) {
    bool positive = false;
    for (int i = 0; i < r.pre.n(); ++i)
      if (!r.pre.fixed[i] && r.pre.w[i] > 0 && r.pre.h[i] > 0) positive = true;
    mk->dom07 = (dom.magnitudeOk && !r.pre.rows.empty() && fsPre.rowHeight > 0 && positive && !r.paramsRejected && moderate) ? 1 : 0;
    mk->dom06 = (dom.c06 && !r.paramsRejected && moderate) ? 1 : 0;
  }
  float blendF = (float)params.global.exportBlending;
  // Known finding C06-netlist-without-connections: when no net joins two different cells the
  // continuous model is a singular, inconsistent system (a cell's own pins pull against each other)
  // and the conjugate-gradient solve diverges to huge finite values.  Violations of C06 on such a
  // netlist carry their own clause names so that everything else is still reported.
  bool noConnections = true;
  for (size_t n = 0; n + 1 < r.pre.netLimits.size() && noConnections; ++n)
    for (int q = r.pre.netLimits[n] + 1; q < r.pre.netLimits[n + 1]; ++q)
      if (r.pre.pinCells[q] != r.pre.pinCells[r.pre.netLimits[n]]) {
        noConnections = false;
        break;
      }
  if (r.pre.netLimits.size() < 2) noConnections = false;  // no net at all: nothing pulls anywhere
  auto c06clause = [&](const char *name) { return std::string(name) + (noConnections ? "-netlist-without-connections" : ""); };
  ColoquinteParameters callParams = params;  // the object the client passes to the call (the agent may write to it)

  tr_.ev(tag + " begin " + opKindName(op.kind) + " effort=" + std::to_string(ps.effort) +
         " seed=" + std::to_string(ps.seed) + " cb=" + std::to_string(op.cb) +
         " pre=" + hex64(hashPlacement(r.pre)) + (r.paramsRejected ? " params-rejected" : ""));

  // state carried across callbacks of this stage
  bool haveLB = false, haveUB = false, haveFirstDet = false;
  std::vector<int> lbX, lbY, ubX, ubY;
  Snapshot firstDet;
  long long prevHpwl = 0, prevFrozen = 0;
  bool prevHpwlValid = false;
  bool polarisedChangedOrient = false;
  // A callback may legally change cell sizes during global placement ("real resize", CB_RESIZE
  // with mode 1: movable cells wider, mode 2: every cell wider).  The frame reference follows what
  // the agent itself set; everything else must stay as it was.
  auto realResize = [&](const CbAction &a) { return a.kind == CB_RESIZE && stage == 0 && ((a.arg >> 1) % 3) != 0; };
  bool observeOnly = true, onlyMovableResizes = true;
  for (auto &a : op.actions) {
    if (realResize(a)) {
      if (((a.arg >> 1) % 3) != 1) onlyMovableResizes = false;
      continue;
    }
    onlyMovableResizes = false;
    if (a.kind != CB_THROW_RT && a.kind != CB_THROW_BA && a.kind != CB_THROW_INT && a.kind != CB_NEST) observeOnly = false;
  }
  Snapshot frameRef;  // r.pre with the sizes the agent has set since
  bool frameRefInit = false;
  std::vector<double> lbCx, lbCy, ubCx, ubCy;  // centres of the last exposed LB / UB placements

  auto agent = [&](PlacementStep step) {
    allocLibraryMode(false);
    int savedPhase = mk->phase;
    mk->phase = 2;
    int k = r.callbacks++;
    mk->sub = k;
    Snapshot s = takeSnapshot(c);
    uint64_t h = hashPlacement(s);
    noteState(h);
    tr_.ev(tag + " cb" + std::to_string(k) + " " + stepName(step) + " " + hex64(h));
    stat(std::string("cb_") + stepName(step));
    {
      // what an observing callback typically does: read-only queries
      Outcome q = guarded([&] {
        (void)c.toString();
        (void)c.computePlacementArea();
        if ((k & 3) == 0) (void)c.computeRows().size();
        if ((k & 7) == 1) (void)c.report();
      });
      (void)q;
    }
    if (r.callbacks > callbackBudgetLimit(budget)) {
      r.liveness = true;
      verdict("C07", "liveness-budget", tag + ": more than " + std::to_string(callbackBudgetLimit(budget)) +
              " callbacks for this parameter set (bounded liveness)", opIndex);
      throw LivenessAbort();
    }
    // --- oracles on the exposed state ---
    mk->phase = 3;
    bool stepMatchesStage = (stage == 0) ? (step != PlacementStep::Detailed) : (step == PlacementStep::Detailed);
    if (!stepMatchesStage)
      verdict("C02", "callback-step-kind", tag + ": unexpected callback step " + std::string(stepName(step)), opIndex);
    if (!frameRefInit) {
      frameRef = r.pre;
      frameRefInit = true;
    }
    if (!r.agentMutated) {
      evald("C03");
      std::string fd = frameDiff(frameRef, s, stage == 0 ? 0 : 1);
      if (!fd.empty()) verdict("C03", "frame-at-callback", tag + " cb" + std::to_string(k) + ": " + fd, opIndex);
    }
    {
      evald("C09");
      long long ref = refHpwl(s), got = c.hpwl();
      if (ref != got)
        verdict("C09", "hpwl-exact", tag + " cb" + std::to_string(k) + ": Circuit::hpwl()=" + std::to_string(got) +
                " reference=" + std::to_string(ref), opIndex);
    }
    if (stage == 0) {
      bool exposesUB = step == PlacementStep::UpperBound || step == PlacementStep::PenaltyUpdate;
      if (dom.c06 && !r.paramsRejected && moderate) {
        evald("C06");
        double tol = 0.5 + 4.0 * 1.1920929e-7 * std::max({1.0, std::fabs((double)fsPre.minX), std::fabs((double)fsPre.maxX),
                                                            std::fabs((double)fsPre.minY), std::fabs((double)fsPre.maxY)});
        for (int i = 0; i < s.n(); ++i) {
          if (s.fixed[i]) continue;
          long long vx = s.x[i], vy = s.y[i];
          if (vx == INT_MIN || vx == INT_MAX || vy == INT_MIN || vy == INT_MAX || std::llabs(vx) > (1LL << 30) ||
              std::llabs(vy) > (1LL << 30)) {
            verdict("C06", c06clause("overflowed-coordinate"), tag + " cb" + std::to_string(k) + " " + stepName(step) + ": cell " +
                    std::to_string(i) + " at (" + std::to_string(vx) + "," + std::to_string(vy) + ")", opIndex);
            break;
          }
          if (!exposesUB) continue;
          if (s.w[i] <= 0 || s.h[i] <= 0) continue;
          double cx = vx + 0.5 * s.pw(i), cy = vy + 0.5 * s.ph(i);
          if (cx < fsPre.minX - tol || cx > fsPre.maxX + tol || cy < fsPre.minY - tol || cy > fsPre.maxY + tol) {
            std::ostringstream os;
            os << tag << " cb" << k << " " << stepName(step) << ": centre of cell " << i << " (" << cx << "," << cy
               << ") outside rows bounding box [" << fsPre.minX << "," << fsPre.maxX << "]x[" << fsPre.minY << ","
               << fsPre.maxY << "]";
            verdict("C06", c06clause("ub-centre-outside-area"), os.str(), opIndex);
            break;
          }
        }
      }
      if (step == PlacementStep::LowerBound || step == PlacementStep::UpperBound) {
        std::vector<double> cx(s.n()), cy(s.n());
        for (int i = 0; i < s.n(); ++i) {
          cx[i] = (double)s.x[i] + 0.5 * s.pw(i);
          cy[i] = (double)s.y[i] + 0.5 * s.ph(i);
        }
        if (step == PlacementStep::LowerBound) {
          haveLB = true;
          lbX = s.x;
          lbY = s.y;
          lbCx = cx;
          lbCy = cy;
        } else {
          haveUB = true;
          ubX = s.x;
          ubY = s.y;
          ubCx = cx;
          ubCy = cy;
        }
      }
    } else {
      if (dom.c01 && !r.agentMutated) {
        evald(stage == 1 ? "C01" : "C02");
        evald("C04");
        std::string l = checkLegality(s, fsPre);
        if (!l.empty())
          verdict(stage == 1 ? "C01" : "C02", stage == 1 ? "illegal-at-callback" : "illegal-exposed-state",
                  tag + " cb" + std::to_string(k) + ": " + l, opIndex);
        std::string o = checkOrientation(r.pre, s, fsPre);
        if (!o.empty()) verdict("C04", "orientation", tag + " cb" + std::to_string(k) + ": " + o, opIndex);
      }
      long long hp = refHpwl(s);
      if (stage == 2) {
        if (!haveFirstDet) {
          haveFirstDet = true;
          firstDet = s;
        } else {
          for (int i = 0; i < s.n(); ++i) {
            if (s.fixed[i]) continue;
            if (s.pol[i] != P_ANY && s.orient[i] != firstDet.orient[i]) polarisedChangedOrient = true;
          }
          if (dom.c01 && !r.agentMutated && fsPre.rowHeight > 0) {
            for (int i = 0; i < s.n(); ++i) {
              if (s.fixed[i]) continue;
              if (firstDet.ph(i) == fsPre.rowHeight) continue;
              if (s.x[i] != firstDet.x[i] || s.y[i] != firstDet.y[i] || s.orient[i] != firstDet.orient[i]) {
                verdict("C02", "multirow-cell-moved", tag + " cb" + std::to_string(k) + ": cell " + std::to_string(i) +
                        " (placed height " + std::to_string(firstDet.ph(i)) + ") moved after legalization", opIndex);
                break;
              }
            }
          }
        }
        // wirelength with the pin offsets frozen at the orientation the cells had
        // right after legalization: what the incremental model optimises
        long long frozen = hp;
        if (polarisedChangedOrient) {
          Snapshot fz = s;
          fz.orient = firstDet.orient;
          frozen = refHpwl(fz);
        }
        if (prevHpwlValid && dom.c01 && !r.agentMutated) evald("C05");
        if (prevHpwlValid && hp > prevHpwl && dom.c01 && !r.agentMutated) {
          bool onlyOffsets = polarisedChangedOrient && frozen <= prevFrozen;
          verdict("C05", onlyOffsets ? "hpwl-increase-with-orientation-change" : "hpwl-increase",
                  tag + " cb" + std::to_string(k) + ": HPWL rose " + std::to_string(prevHpwl) + " -> " + std::to_string(hp) +
                  (onlyOffsets ? " (a polarised cell changed row and orientation; with the pin offsets frozen at the legalized orientation the length went " + std::to_string(prevFrozen) + " -> " + std::to_string(frozen) + ")" : ""), opIndex);
        }
        prevHpwl = hp;
        prevFrozen = frozen;
        prevHpwlValid = true;
      }
    }
    // --- actions ---
    mk->phase = 2;
    if (hook_ && !nested) hook_(k);
    bool doThrow = false;
    int thrKind = 0;
    if (throwAt == k) {
      doThrow = true;
      thrKind = throwKind;
    }
    for (auto &a : op.actions) {
      if (a.k != k) continue;
      switch (a.kind) {
        case CB_THROW_RT:
        case CB_THROW_BA:
        case CB_THROW_INT:
          doThrow = true;
          thrKind = a.kind;
          break;
        case CB_POKE:
          pokeInCallback(c, opIndex, k);
          break;
        case CB_BADCALL:
          badCall(c, opIndex, (int)(a.arg % 100), a.arg / 100, true);
          break;
        case CB_RESIZE: {
          if (realResize(a)) {
            // legal during global placement: the library has to pick the new sizes up
            bool all = ((a.arg >> 1) % 3) == 2;
            if (all) r.resized = true;  // obstructions change: the C06 oracles of this op are skipped
            r.realResize = true;
            stat(all ? "fault_real_resize_all_cells" : "fault_real_resize_movable_cells");
            std::vector<int> w = c.cellWidth();
            for (int i = 0; i < (int)w.size(); ++i)
              if (w[i] > 0 && w[i] < (1 << 20) && (all || !c.isFixed(i))) w[i] += 2 + (int)(((a.arg >> 1) / 3) % 3) * 2;
            c.setCellWidth(w);
            if (a.arg % 2) c.setCellHeight(c.cellHeight());
            frameRef.w = w;
            break;
          }
          r.agentMutated = true;
          r.resized = true;
          stat("fault_resize_in_callback");
          c.setCellWidth(c.cellWidth());
          if (a.arg % 2) c.setCellHeight(c.cellHeight());
          break;
        }
        case CB_BADPARAMS: {
          static const char *keys[] = {"d.nbPasses", "g.maxNbSteps", "rl.binSize", "d.localSearchNbNeighbours", "l.costModel", "pe.updateFactor"};
          static const double vals[] = {-1, -1, 0.5, -1, 2, 1.0};
          int j = (int)(a.arg % 6);
          if (r.paramsPoisonedAt < 0) r.paramsPoisonedAt = k;
          stat("fault_params_poisoned_in_callback");
          applyOverride(callParams, keys[j], vals[j]);
          break;
        }
        case CB_NEST: {
          if (nestDepth_ < 1 && !plan_.other.cells.empty()) {
            stat("nested_runs");
            ++nestDepth_;
            Circuit o = buildCircuit(plan_.other);
            Op nop;
            nop.kind = (int)(a.arg % 3);
            nop.params.effort = 1 + (int)((a.arg / 3) % 3);
            nop.params.ov.emplace_back("g.maxNbSteps", 4.0);
            nop.cb = (int)((a.arg / 9) % 2);
            SchedStats keep;
            // the nested run's solver steps are served by the same scheduler
            StageRun nr = runStage(o, opIndex, nop, -1, 0, true, tag + ".nest" + std::to_string(k));
            (void)nr;
            (void)keep;
            --nestDepth_;
          }
          break;
        }
        default: break;
      }
    }
    if (doThrow) {
      r.agentThrew = true;
      stat("fault_callback_throw");
      stat(std::string("fault_callback_throw_") + cbKindName(thrKind));
      tr_.ev(tag + " cb" + std::to_string(k) + " agent throws " + cbKindName(thrKind));
      mk->phase = 1;
      if (thrKind == CB_THROW_RT) throw std::runtime_error("injected by callback agent");
      if (thrKind == CB_THROW_BA) throw std::bad_alloc();
      throw 42;
    }
    mk->phase = savedPhase;
    allocLibraryMode(true);
  };

  std::optional<PlacementCallback> cb;
  if (op.cb || throwAt >= 0) cb = PlacementCallback(agent);

  // ---- install the seams and call the library ----
  bool ownSeams = !nested;
  if (ownSeams) {
    int mode = op.schedMode;
    schedBegin(mode, op.sched.empty() ? nullptr : op.sched.data(), (int)op.sched.size());
    clockBegin(op.clock);
    entropyArm(true);
    if (op.stdoutBad) {
      stdoutSinkSetBad(true);
      stat("fault_stdout_bad");
    }
    if (op.clock) stat("fault_clock_script");
    if (op.allocFail >= 0 && (stage == 0 || stage == 1))
      allocArm(op.allocFail);
    else
      allocArm(-1);
  }
  mk->phase = 1;
  allocLibraryMode(true);
  r.out = guarded([&] {
    if (ps.byEffort && !cb && ps.ov.empty()) {  // the int overloads cannot carry overrides
      if (stage == 0) c.placeGlobal(ps.effort);
      else if (stage == 1) c.legalize(ps.effort);
      else c.placeDetailed(ps.effort);
    } else {
      if (stage == 0) c.placeGlobal(callParams, cb);
      else if (stage == 1) c.legalize(callParams, cb);
      else c.placeDetailed(callParams, cb);
    }
  });
  allocLibraryMode(false);
  mk->phase = 3;
  if (ownSeams) {
    long long allocs = allocDisarm();
    r.allocFaultFired = allocFired();
    if (r.allocFaultFired) stat("fault_alloc_fired");
    stat("allocations_counted", allocs);
    long long trips = entropyTrips();
    entropyArm(false);
    long long reads = clockReads();
    clockEnd();
    stat("clock_reads_intercepted", reads);
    if (op.stdoutBad) stdoutSinkSetBad(false);
    schedEnd(&r.sched);
    stat("sched_grants", r.sched.grants);
    stat("sched_lb_steps", r.sched.lbSteps);
    stat("sched_y_finished_first", r.sched.yFinishedFirst);
    stat("sched_x_finished_first", r.sched.xFinishedFirst);
    stat("sched_switches", r.sched.switches);
    stat("sched_child_first_starts", r.sched.childFirstStarts);
    stat("sched_creator_first_starts", r.sched.creatorFirstStarts);
    stat("sched_start_order_timeouts", r.sched.startOrderTimeouts);
    if (r.sched.maxSwitchesInStep > res_.stats.get("sched_max_switches_in_step"))
      res_.stats.c["sched_max_switches_in_step"] = r.sched.maxSwitchesInStep;
    stat("sched_sequential_solves", r.sched.sequentialSolves);
    if (r.sched.degraded) {
      // the library no longer runs its two solves the way the token protocol expects: nothing
      // was serialised
      stat("sched_degraded_ops");
      res_.schedDegraded = true;
    } else if (r.sched.lbSteps > 0 && op.schedMode != SM_FREE) {
      // grant sequences are compared through ExecResult::detHash, not through the event trace
      res_.schedHashes.push_back(r.sched.grantHash);
      tr_.note(tag + " sched grants=" + std::to_string(r.sched.grants) + " hash=" + hex64(r.sched.grantHash));
    }
    if (trips > 0)
      verdict("C08", "entropy-tripwire", tag + ": the library called " + std::string(entropyLastSource()) +
              " during a placement call (" + std::to_string(trips) + " calls)", opIndex);
  }
  r.post = takeSnapshot(c);
  tr_.ev(tag + " end " + r.out.str() + " cbs=" + std::to_string(r.callbacks) + " post=" + hex64(hashPlacement(r.post)));
  stat("ticks", 1 + r.callbacks + r.sched.grants);
  stat(r.out.returned() ? "stage_returned" : "stage_threw");
  evald("C07");

  // ---- post-op oracles ----
  bool faultFromOutside = r.agentThrew || r.allocFaultFired || r.liveness;
  bool libraryOwnFailure = !r.out.returned() && !faultFromOutside;

  // exceptions raised by the library itself are catchable std exceptions
  if (libraryOwnFailure && r.out.kind != 1)
    verdict("C07", "non-std-exception", tag + ": " + r.out.str(), opIndex);

  // C03: frame, however the call ended
  if (!r.agentMutated && observeOnly) {
    evald("C03");
    if (!r.out.returned()) stat("probe_frame_checked_after_throw");
    std::string fd = frameDiff(frameRefInit ? frameRef : r.pre, r.post, stage == 0 ? 0 : 1);
    if (!fd.empty()) verdict("C03", r.out.returned() ? "frame-after-return" : "frame-after-throw", tag + " (" + r.out.str() + "): " + fd, opIndex);
  }
  // C09a at the final state
  {
    evald("C09");
    long long ref = refHpwl(r.post), got = c.hpwl();
    if (ref != got)
      verdict("C09", "hpwl-exact", tag + " end: Circuit::hpwl()=" + std::to_string(got) + " reference=" + std::to_string(ref), opIndex);
  }
  // C19/C10: rejected parameters => error before any work
  if (r.paramsRejected) {
    stat("fault_params_rejected");
    evald("C19");
    evald("C10");
    if (r.out.returned())
      verdict("C19", "rejected-params-accepted", tag + ": parameter set fails check() but the call returned", opIndex);
    if (r.callbacks > 0)
      verdict("C19", "work-before-param-check", tag + ": callback invoked although parameters are rejected", opIndex);
    std::string why;
    if (!samePlacement(r.pre, r.post, &why))
      verdict("C19", "rejected-params-modified-circuit", tag + ": " + why, opIndex);
  }
  // resize inside legalization / detailed placement must be refused loudly
  if (r.resized && stage != 0 && r.out.returned() && !r.paramsRejected)
    verdict("C10", "resize-not-refused", tag + ": cell sizes were touched in a callback but the call returned", opIndex);

  if (stage == 1 || stage == 2) {
    if (r.out.returned() && dom.c01 && !r.agentMutated && !r.paramsRejected) {
      evald(stage == 1 ? "C01" : "C02");
      evald("C04");
      std::string l = checkLegality(r.post, fsPre);
      if (!l.empty()) verdict(stage == 1 ? "C01" : "C02", stage == 1 ? "illegal-result" : "illegal-exposed-state", tag + " result: " + l, opIndex);
      std::string o = checkOrientation(r.pre, r.post, fsPre);
      if (!o.empty()) verdict("C04", "orientation", tag + " result: " + o, opIndex);
      if (stage == 1) stat("probe_legalize_returned_in_domain");
    }
    if (stage == 1 && !r.out.returned() && r.callbacks == 0 && !r.allocFaultFired) {
      // failure of legalization itself (or of the parameter check): nothing written
      evald("C01");
      evald("C10");
      std::string why;
      if (!samePlacement(r.pre, r.post, &why)) {
        verdict("C01", "failed-legalization-modified-placement", tag + " (" + r.out.str() + "): " + why, opIndex);
        verdict("C10", "failed-legalization-modified-placement", tag + " (" + r.out.str() + "): " + why, opIndex);
      }
      if (libraryOwnFailure && !r.paramsRejected) {
        stat("probe_legalization_threw_infeasible");
        stat("fault_infeasible_legalization");
      }
    }
    if (r.allocFaultFired && !r.out.returned() && stage == 1 && r.callbacks == 0) {
      std::string why;
      if (!samePlacement(r.pre, r.post, &why))
        verdict("C10", "failed-legalization-modified-placement", tag + " (allocation failure): " + why, opIndex);
    }
    if (libraryOwnFailure && !r.paramsRejected && dom.c01 && !r.resized && r.callbacks == 0 && trivialLegalizable(r.pre, fsPre))
      verdict("C01", "failed-although-trivial", tag + ": " + r.out.str() + " although every movable cell is row-high, unrestricted and the total width fits with one maximum width to spare per segment", opIndex);
    if (dom.c01 && trivialLegalizable(r.pre, fsPre)) stat("probe_trivial_clause_applicable");
    // C11: re-legalization of a legal single-row placement moves nothing
    if (stage == 1 && dom.c01 && dom.singleRowOnly && !r.paramsRejected && !r.agentMutated && !faultFromOutside) {
      bool small = true;
      for (int i = 0; i < r.pre.n(); ++i)
        if (std::abs((long long)r.pre.x[i]) >= (1 << 20) || std::abs((long long)r.pre.y[i]) >= (1 << 20) || r.pre.w[i] >= (1 << 20)) small = false;
      for (auto &rw : r.pre.rows)
        if (std::abs((long long)rw.minX) >= (1 << 20) || std::abs((long long)rw.maxX) >= (1 << 20) || std::abs((long long)rw.minY) >= (1 << 20) || std::abs((long long)rw.maxY) >= (1 << 20)) small = false;
      bool rowsAllowed = true;
      for (int i = 0; i < r.pre.n() && rowsAllowed; ++i) {
        if (r.pre.fixed[i] || r.pre.pol[i] == P_ANY) continue;
        auto it = fsPre.levelOrient.find(r.pre.y[i]);
        if (it == fsPre.levelOrient.end() || expectedOrientation(r.pre.pol[i], it->second) == O_INVALID) rowsAllowed = false;
      }
      if (small && rowsAllowed && checkLegality(r.pre, fsPre).empty()) {
        stat("probe_relegalize_legal_input");
        evald("C11");
        double ow = params.legalization.orderingWidth;
        std::string inBand = (ow >= 0.0 && ow <= 1.0) ? "" : "-orderingWidth-outside-0-1";
        if (!r.out.returned()) {
          verdict("C11", "relegalize-threw" + inBand, tag + ": legalizing an already legal placement " + r.out.str(), opIndex);
        } else {
          for (int i = 0; i < r.pre.n(); ++i) {
            if (r.pre.fixed[i]) continue;
            if (r.pre.x[i] != r.post.x[i] || r.pre.y[i] != r.post.y[i]) {
              std::ostringstream os;
              os << tag << ": cell " << i << " moved (" << r.pre.x[i] << "," << r.pre.y[i] << ") -> (" << r.post.x[i]
                 << "," << r.post.y[i] << ") when legalizing an already legal placement (orderingWidth=" << ow << ")";
              verdict("C11", "relegalize-moved" + inBand, os.str(), opIndex);
              break;
            }
          }
        }
      }
    }
  }
  if (stage == 2 && dom.c01 && !r.paramsRejected && !r.agentMutated && !r.resized) {
    // reference: what legalization alone does on the same input
    bool needShadow = (!r.out.returned() && libraryOwnFailure) || (r.out.returned() && !haveFirstDet);
    Snapshot legal;
    bool haveLegal = false, shadowThrew = false;
    if (haveFirstDet) {
      legal = firstDet;
      haveLegal = true;
    }
    if (needShadow) {
      Circuit shadow = buildCircuit(specFromSnapshot(r.pre));
      Outcome so = guarded([&] { shadow.legalize(params); });
      stat("shadow_legalizations");
      if (so.returned()) {
        legal = takeSnapshot(shadow);
        haveLegal = true;
      } else {
        shadowThrew = true;
      }
    }
    if (!r.out.returned() && libraryOwnFailure && haveLegal && !shadowThrew)
      verdict("C02", "detailed-failed-where-legalization-succeeds", tag + ": " + r.out.str() + " but Circuit::legalize on the same input returns", opIndex);
    if (r.out.returned() && haveLegal) {
      evald("C05");
      evald("C02");
      long long h0 = refHpwl(legal), h1 = refHpwl(r.post);
      bool polChanged = false;
      for (int i = 0; i < r.post.n(); ++i)
        if (!r.post.fixed[i] && r.post.pol[i] != P_ANY && r.post.orient[i] != legal.orient[i]) polChanged = true;
      if (h1 > h0) {
        Snapshot fz = r.post;
        fz.orient = legal.orient;
        long long f1 = refHpwl(fz);
        bool onlyOffsets = polChanged && f1 <= h0;
        verdict("C05", onlyOffsets ? "hpwl-increase-with-orientation-change" : "hpwl-increase",
                tag + ": HPWL after detailed placement " + std::to_string(h1) + " exceeds that of the legalized placement " + std::to_string(h0) +
                (onlyOffsets ? " (a polarised cell changed row and orientation; with the pin offsets frozen at the legalized orientation the length is " + std::to_string(f1) + ")" : ""), opIndex);
      }
      if (h1 < h0) stat("probe_detailed_improved_hpwl");
      if (polChanged) stat("probe_polarised_cell_changed_row");
      if (fsPre.rowHeight > 0) {
        for (int i = 0; i < r.post.n(); ++i) {
          if (r.post.fixed[i]) continue;
          if (legal.ph(i) == fsPre.rowHeight) continue;
          stat("probe_multirow_cell_in_detailed");
          if (r.post.x[i] != legal.x[i] || r.post.y[i] != legal.y[i] || r.post.orient[i] != legal.orient[i]) {
            verdict("C02", "multirow-cell-moved", tag + ": cell " + std::to_string(i) + " (placed height " + std::to_string(legal.ph(i)) +
                    ") is not where legalization put it", opIndex);
            break;
          }
        }
      }
    }
  }
  if (stage == 0) {
    if (dom.c06 && !r.paramsRejected && moderate && !r.resized) {
      stat("probe_global_in_c06_domain");
      evald("C06");
      if (libraryOwnFailure)
        verdict("C06", "global-threw", tag + ": " + r.out.str() + " on a circuit of the domain", opIndex);
      if (r.out.returned()) {
        for (int i = 0; i < r.post.n(); ++i) {
          if (r.post.fixed[i]) continue;
          long long vx = r.post.x[i], vy = r.post.y[i];
          if (vx == INT_MIN || vx == INT_MAX || vy == INT_MIN || vy == INT_MAX || std::llabs(vx) > (1LL << 30) || std::llabs(vy) > (1LL << 30)) {
            verdict("C06", c06clause("overflowed-coordinate"), tag + " result: cell " + std::to_string(i) + " at (" + std::to_string(vx) + "," + std::to_string(vy) + ")", opIndex);
            break;
          }
        }
        if (haveLB && haveUB && observeOnly && (op.actions.empty() || onlyMovableResizes) && throwAt < 0) {
          stat("probe_blend_checked");
          if (r.realResize) stat("probe_blend_checked_after_real_resize");
          double b = blendF;
          double k1 = std::fabs(1.0 - b) + std::fabs(b);
          for (int i = 0; i < r.post.n(); ++i) {
            if (r.post.fixed[i]) continue;
            for (int axis = 0; axis < 2; ++axis) {
              // the blend is one of cell centres; the exported corner uses the size the cell has now
              double half = 0.5 * (axis ? r.post.ph(i) : r.post.pw(i));
              double L = axis ? lbCy[i] : lbCx[i], U = axis ? ubCy[i] : ubCx[i], R = axis ? r.post.y[i] : r.post.x[i];
              double expct = (1.0 - b) * L + b * U - half;
              double mag = std::max({1.0, std::fabs(L), std::fabs(U), (double)std::max(r.post.pw(i), r.post.ph(i))});
              double tol = 0.5 + 0.5 * k1 + 16.0 * 1.1920929e-7 * mag * (k1 + 1.0);
              // exact only while sizes are constant: after a resize the observed corner was rounded with
              // another half size than the final export uses, so the two roundings no longer cancel
              bool exact = (b == 0.0 || b == 1.0) && !r.realResize;
              bool bad = exact ? (R != expct) : (std::fabs(R - expct) > tol);
              if (bad) {
                std::ostringstream os;
                os << tag << ": returned " << (axis ? "y" : "x") << " of cell " << i << " is " << R << ", centre in the last LB " << L
                   << ", in the last UB " << U << ", half size now " << half << ", exportBlending " << b << " => expected " << expct << (exact ? " exactly" : " +- ") ;
                if (!exact) os << tol;
                verdict("C06", c06clause("export-blend"), os.str(), opIndex);
                i = r.post.n();
                break;
              }
            }
          }
        }
      }
    }
  }
  if (r.liveness) stat("liveness_aborts");
  return r;
}

// ----------------------------------------------------- protocol (C10) -----
void CircuitExec::protocolAfter(Circuit &c, int opIndex, const std::string &how) {
  Snapshot before = takeSnapshot(c);
  auto attempt = [&](const char *name, const std::function<void()> &f) {
    Outcome o = guarded(f);
    if (!o.returned())
      verdict("C10", std::string("setter-refused-after-") + how, std::string(name) + " " + o.str() + " after the placement call ended (" + how + ")", opIndex);
  };
  attempt("setCellIsFixed", [&] { c.setCellIsFixed(c.cellIsFixed()); });
  attempt("setCellIsObstruction", [&] { c.setCellIsObstruction(c.cellIsObstruction()); });
  attempt("setCellRowPolarity", [&] { c.setCellRowPolarity(c.cellRowPolarity()); });
  attempt("setRows", [&] { c.setRows(c.rows()); });
  attempt("addNet", [&] { c.addNet({}, {}, {}); });
  attempt("setNets", [&] {
    std::vector<int> l = c.netLimits_, pc = c.pinCells_, px = c.pinXOffsets_, py = c.pinYOffsets_;
    std::vector<float> w = c.netWeights_;
    c.setNets(l, pc, px, py, w);
  });
  if (c.nbRows() > 0) {
    std::vector<Row> saved = c.rows();
    int h = saved[0].height();
    if (h > 0) {
      attempt("setupRows", [&] { c.setupRows(c.computePlacementArea(), h); });
      Outcome o = guarded([&] { c.setRows(saved); });
      (void)o;
    }
  }
  Outcome chk = guarded([&] { c.check(); });
  if (!chk.returned()) verdict("C10", "check-failed-after-call", "Circuit::check() " + chk.str() + " after the call ended (" + how + ")", opIndex);
  Snapshot after = takeSnapshot(c);
  std::string fd = frameDiff(before, after, 0);
  std::string why;
  if (!fd.empty() || !samePlacement(before, after, &why))
    verdict("C10", "setters-with-current-values-changed-state", fd + why, opIndex);
  stat("protocol_checks_after_op");
  evald("C10");
}

void CircuitExec::pokeInCallback(Circuit &c, int opIndex, int k) {
  Snapshot before = takeSnapshot(c);
  bool sizeFlag = c.hasCellSizeUpdate_, netFlag = c.hasNetUpdate_;
  auto attempt = [&](const char *name, const std::function<void()> &f) {
    Outcome o = guarded(f);
    stat("pokes_in_callback");
    evald("C10");
    if (o.returned())
      verdict("C10", "setter-accepted-in-callback", std::string(name) + " was accepted inside callback " + std::to_string(k) + " of a running placement call", opIndex);
    else if (o.kind != 1)
      verdict("C10", "setter-nonstd-exception", std::string(name) + " " + o.str(), opIndex);
  };
  attempt("setCellIsFixed", [&] { c.setCellIsFixed(c.cellIsFixed()); });
  attempt("setCellIsObstruction", [&] { c.setCellIsObstruction(c.cellIsObstruction()); });
  attempt("setCellRowPolarity", [&] { c.setCellRowPolarity(c.cellRowPolarity()); });
  attempt("setRows", [&] { c.setRows(c.rows()); });
  attempt("addNet(empty)", [&] { c.addNet({}, {}, {}); });
  if (c.nbCells() > 0) attempt("addNet", [&] { c.addNet({0}, {0}, {0}); });
  attempt("setNets", [&] {
    std::vector<int> l = c.netLimits_, pc = c.pinCells_, px = c.pinXOffsets_, py = c.pinYOffsets_;
    std::vector<float> w = c.netWeights_;
    c.setNets(l, pc, px, py, w);
  });
  if (c.nbRows() > 0 && c.rows()[0].height() > 0) {
    std::vector<Row> saved = c.rows();
    attempt("setupRows", [&] { c.setupRows(c.computePlacementArea(), saved[0].height()); });
  }
  Snapshot after = takeSnapshot(c);
  std::string fd = frameDiff(before, after, 0);
  std::string why;
  if (!fd.empty() || !samePlacement(before, after, &why))
    verdict("C10", "refused-setter-changed-state", "callback " + std::to_string(k) + ": " + fd + why, opIndex);
  if (c.hasCellSizeUpdate_ != sizeFlag || c.hasNetUpdate_ != netFlag)
    verdict("C10", "refused-setter-changed-state", "callback " + std::to_string(k) + ": a refused setter changed the public update flags of the circuit (hasCellSizeUpdate_ " + std::to_string(sizeFlag) + "->" + std::to_string(c.hasCellSizeUpdate_) + ", hasNetUpdate_ " + std::to_string(netFlag) + "->" + std::to_string(c.hasNetUpdate_) + ")", opIndex);
}

// ------------------------------------------------------ bad calls (C19) ---
void CircuitExec::badCall(Circuit &c, int opIndex, int kind, long long variant, bool inCallback, const ParamSpec *ctx) {
  CrashMarker *mk = crashMarker();
  int savedKind = mk->opKind, savedSub = mk->sub;
  mk->opKind = OP_BADCALL;
  mk->sub = kind;
  snprintf(mk->note, sizeof mk->note, "badcall kind=%d variant=%lld %s", kind, variant, inCallback ? "in-callback" : "top-level");
  Snapshot before = takeSnapshot(c);
  int n = c.nbCells();
  std::string name;
  bool expectThrow = true;
  bool callbackInvoked = false;
  Outcome o;
  auto wrongLen = [&](int which) -> int {
    switch (which % 3) {
      case 0: return std::max(0, n - 1);
      case 1: return n + 1;
      default: return n == 0 ? 2 : 0;
    }
  };
  switch (kind) {
    case 0: {  // ColoquinteParameters(effort)
      int e = (int)variant;
      name = "ColoquinteParameters(" + std::to_string(e) + ")";
      expectThrow = e < 1 || e > 9;
      o = guarded([&] {
        ColoquinteParameters p(e);
        p.check();
      });
      break;
    }
    case 1: {  // place*(effort) overloads
      int e = (int)(variant / 3);
      int st = (int)(((variant % 3) + 3) % 3);
      if (e >= 1 && e <= 9) e = 10 + e;
      name = std::string(st == 0 ? "placeGlobal" : st == 1 ? "legalize" : "placeDetailed") + "(" + std::to_string(e) + ")";
      o = guarded([&] {
        if (st == 0) c.placeGlobal(e);
        else if (st == 1) c.legalize(e);
        else c.placeDetailed(e);
      });
      break;
    }
    case 2: {  // one parameter field just outside its check() bound
      struct Bad {
        const char *key;
        double v;
      };
      static const Bad bads[] = {
          {"g.maxNbSteps", -1}, {"g.nbInitialSteps", -1}, {"g.nbInitialSteps", 400}, {"g.nbStepsBeforeRoughLegalization", 0},
          {"g.gapTolerance", -0.01}, {"g.gapTolerance", 1.01}, {"g.distanceTolerance", -0.5}, {"g.exportBlending", -0.51},
          {"g.exportBlending", 1.51}, {"g.noise", -0.001}, {"g.noise", 2.01}, {"g.penaltyUpdateDistance", 0.0},
          {"g.penaltyUpdateBackoff", 0.99}, {"cm.approximationDistance", 1e-7}, {"cm.approximationDistance", 1001.0},
          {"cm.approximationDistanceUpdateFactor", 0.79}, {"cm.approximationDistanceUpdateFactor", 1.21},
          {"cm.maxNbConjugateGradientSteps", 0}, {"cm.conjugateGradientErrorTolerance", 1e-9}, {"cm.conjugateGradientErrorTolerance", 1.01},
          {"rl.nbSteps", -1}, {"rl.binSize", 0.99}, {"rl.binSize", 25.01}, {"rl.lineReoptSize", 0}, {"rl.diagReoptSize", 0},
          {"rl.squareReoptSize", 0}, {"rl.lineReoptOverlap", 0}, {"rl.diagReoptOverlap", 0}, {"rl.squareReoptOverlap", 0},
          {"rl.lineReoptSize", 65}, {"rl.diagReoptSize", 65}, {"rl.squareReoptSize", 9}, {"rl.lineReoptOverlap", 2},
          {"rl.diagReoptOverlap", 2}, {"rl.squareReoptOverlap", 5}, {"rl.quadraticPenalty", -0.01}, {"rl.quadraticPenalty", 1.01},
          {"rl.targetBlending", -0.11}, {"rl.targetBlending", 0.91}, {"pe.cutoffDistance", 1e-7}, {"pe.cutoffDistanceUpdateFactor", 0.79},
          {"pe.cutoffDistanceUpdateFactor", 1.21}, {"pe.areaExponent", 0.48}, {"pe.areaExponent", 1.02}, {"pe.initialValue", 0.0},
          {"pe.updateFactor", 1.0}, {"pe.updateFactor", 2.0}, {"pe.targetBlending", 0.09}, {"pe.targetBlending", 1.11},
          {"l.costModel", 1}, {"l.orderingWidth", 2.01}, {"l.orderingWidth", -1.01}, {"l.orderingY", 0.21}, {"l.orderingY", -0.21},
          {"d.nbPasses", -1}, {"d.localSearchNbNeighbours", -1}, {"d.localSearchNbRows", -1}, {"d.shiftNbRows", 0},
          {"d.shiftMaxNbCells", -1}, {"d.reorderingNbRows", 0}, {"d.reorderingMaxNbCells", -1}};
      const int nb = (int)(sizeof bads / sizeof bads[0]);
      long long v = variant < 0 ? -variant : variant;
      int st = (int)(v % 3);
      int i1 = (int)((v / 3) % nb);
      int i2 = (int)((v / 3 / nb) % (nb + 1));  // nb: no second field
      ColoquinteParameters p(1 + (int)((v / 7) % 9));
      p.global.maxNbSteps = 3;
      // valid, non-default context taken from the plan (the op's parameter overrides)
      if (ctx) {
        ColoquinteParameters q = p;
        for (auto &kv : ctx->ov) applyOverride(q, kv.first, kv.second);
        if (refParamsValid(q)) p = q;
      }
      applyOverride(p, bads[i1].key, bads[i1].v);
      name = std::string(st == 0 ? "placeGlobal" : st == 1 ? "legalize" : "placeDetailed") + " with " + bads[i1].key + "=" + std::to_string(bads[i1].v);
      if (i2 < nb) {
        applyOverride(p, bads[i2].key, bads[i2].v);
        name += std::string(" and ") + bads[i2].key + "=" + std::to_string(bads[i2].v);
      }
      {
        std::string why;
        if (refParamsValid(p, &why)) {
          // combination happens to be acceptable (second field repaired the first): not a bad call
          mk->opKind = savedKind;
          mk->sub = savedSub;
          return;
        }
        name += " [" + why + "]";
        // keep the run short if the library wrongly goes ahead
        if (p.global.maxNbSteps > 3) p.global.maxNbSteps = 3;
      }
      PlacementCallback cbk = [&](PlacementStep) { callbackInvoked = true; };
      o = guarded([&] {
        if (st == 0) c.placeGlobal(p, cbk);
        else if (st == 1) c.legalize(p, cbk);
        else c.placeDetailed(p, cbk);
      });
      break;
    }
    case 3: {  // vector setter with a wrong length
      int which = (int)(variant % 9);
      int len = wrongLen((int)(variant / 9));
      static const char *names[] = {"setCellX", "setCellY", "setCellWidth", "setCellHeight", "setCellIsFixed",
                                    "setCellIsObstruction", "setCellOrientation", "setCellRowPolarity", "setSolution"};
      name = std::string(names[which]) + " with " + std::to_string(len) + " elements for " + std::to_string(n) + " cells";
      o = guarded([&] {
        switch (which) {
          case 0: c.setCellX(std::vector<int>(len, 1)); break;
          case 1: c.setCellY(std::vector<int>(len, 1)); break;
          case 2: c.setCellWidth(std::vector<int>(len, 1)); break;
          case 3: c.setCellHeight(std::vector<int>(len, 1)); break;
          case 4: c.setCellIsFixed(std::vector<bool>(len, true)); break;
          case 5: c.setCellIsObstruction(std::vector<bool>(len, false)); break;
          case 6: c.setCellOrientation(std::vector<CellOrientation>(len, CellOrientation::S)); break;
          case 7: c.setCellRowPolarity(std::vector<CellRowPolarity>(len, CellRowPolarity::SAME)); break;
          default: c.setSolution(PlacementSolution(len, CellPlacement(1, 1, CellOrientation::S))); break;
        }
      });
      break;
    }
    case 4: {  // addNet with inconsistent vector lengths
      int v = (int)(variant % 4);
      name = "addNet with inconsistent lengths (variant " + std::to_string(v) + ")";
      int cell = n > 0 ? 0 : 0;
      o = guarded([&] {
        switch (v) {
          case 0: c.addNet({cell, cell}, {0}, {0, 0}); break;
          case 1: c.addNet({cell}, {0, 0}, {0}); break;
          case 2: c.addNet({cell}, {0}, {}); break;
          default: c.addNet({}, {0}, {0}); break;
        }
      });
      if (n == 0) {
        mk->opKind = savedKind;
        mk->sub = savedSub;
        return;
      }
      break;
    }
    case 5: {  // addNet naming a cell that does not exist
      static const long long offs[] = {0, 1, 7, 1000, 2147483647LL};
      long long v = variant < 0 ? -variant : variant;
      int bad = (v % 2) ? -1 - (int)std::min<long long>(offs[(v / 2) % 4], 2147483646LL) : (int)std::min<long long>((long long)n + offs[(v / 2) % 5], 2147483647LL);
      name = "addNet with pin cell index " + std::to_string(bad) + " for " + std::to_string(n) + " cells";
      o = guarded([&] {
        if (n > 0 && (v / 10) % 2) c.addNet({0, bad}, {0, 0}, {0, 0});
        else c.addNet({bad}, {0}, {0});
      });
      break;
    }
    case 6: {  // setNets with inconsistent vectors / bad indices
      int v = (int)(variant % 7);
      name = "setNets malformed (variant " + std::to_string(v) + ")";
      o = guarded([&] {
        switch (v) {
          case 0: c.setNets({}, {}, {}, {}); break;
          case 1: c.setNets({1, 2}, {0, 0}, {0, 0}, {0, 0}); break;
          case 2: c.setNets({0, 2}, {0}, {0, 0}, {0, 0}); break;
          case 3: c.setNets({0, 1}, {0}, {0, 0}, {0}); break;
          case 4: c.setNets({0, 1}, {0}, {0}, {0}, {1.0f, 2.0f}); break;
          case 5: c.setNets({0, 1}, {n}, {0}, {0}); break;
          default: c.setNets({0, 2, 1}, {0, 0}, {0, 0}, {0, 0}); break;
        }
      });
      if (n == 0 && (v == 1 || v == 2 || v == 3 || v == 4 || v == 6)) {
        // pin cell 0 does not exist either; still malformed, keep the expectation
      }
      break;
    }
    case 7: {  // setNetWeights with a wrong length
      int len = c.nbNets() + 1 + (int)(variant % 2);
      if (variant % 3 == 2 && c.nbNets() > 0) len = c.nbNets() - 1;
      name = "setNetWeights with " + std::to_string(len) + " weights for " + std::to_string(c.nbNets()) + " nets";
      o = guarded([&] { c.setNetWeights(std::vector<float>(len, 2.0f)); });
      break;
    }
    case 8: {  // setupRows with a non-positive row height
      int h = (variant % 2) ? 0 : -(int)(1 + variant % 5);
      name = "setupRows with rowHeight " + std::to_string(h);
      o = guarded([&] { c.setupRows(Rectangle(0, 100, 0, 100), h); });
      break;
    }
    case 9: {  // expandCellsByFactor: wrong length or factor below one
      int v = (int)(variant % 2);
      name = v ? "expandCellsByFactor with a factor below 1" : "expandCellsByFactor with a wrong length";
      o = guarded([&] {
        if (v) {
          std::vector<float> f(n, 1.0f);
          if (n > 0) f[n / 2] = 0.5f;
          else f.push_back(0.5f);
          c.expandCellsByFactor(f);
        } else {
          c.expandCellsByFactor(std::vector<float>(wrongLen((int)(variant / 2)), 1.5f));
        }
      });
      break;
    }
    default:
      mk->opKind = savedKind;
      mk->sub = savedSub;
      return;
  }
  stat("fault_badcall");
  evald("C19");
  stat("fault_badcall_kind" + std::to_string(kind));
  if (inCallback) stat("fault_badcall_in_callback");
  tr_.ev("badcall " + name + " -> " + o.str());
  std::string where = inCallback ? " (inside a callback)" : "";
  if (expectThrow) {
    if (o.returned())
      verdict("C19", "invalid-input-accepted", name + where + " was accepted", opIndex);
    else if (o.kind != 1)
      verdict("C19", "invalid-input-nonstd-exception", name + where + " " + o.str(), opIndex);
    if (callbackInvoked) verdict("C19", "work-before-param-check", name + where + ": callback invoked", opIndex);
    Snapshot after = takeSnapshot(c);
    std::string fd = frameDiff(before, after, 0), why;
    if (!fd.empty() || !samePlacement(before, after, &why))
      verdict("C19", "refused-input-modified-circuit", name + where + ": " + fd + why, opIndex);
    // the protocol flag must not be left behind by a refused call
    if (!inCallback && kind == 1) {
      Outcome s = guarded([&] { c.setCellIsFixed(c.cellIsFixed()); });
      if (!s.returned()) verdict("C10", "setter-refused-after-exception", "setCellIsFixed " + s.str() + " after " + name + " was refused", opIndex);
    }
  } else {
    if (!o.returned()) verdict("C19", "valid-effort-rejected", name + " " + o.str(), opIndex);
  }
  mk->opKind = savedKind;
  mk->sub = savedSub;
}

// ----------------------------------------------------------- client ops ---
void CircuitExec::doPerturb(Circuit &c, const Op &op) {
  long long mode = op.args.size() > 0 ? op.args[0] : 0;
  uint64_t seed = op.args.size() > 1 ? (uint64_t)op.args[1] : 1;
  long long mag = op.args.size() > 2 ? std::max<long long>(1, op.args[2]) : 4;
  Rng rng(mix64(seed, 0x9e11));
  Rectangle area = c.computePlacementArea();
  std::vector<int> x = c.cellX(), y = c.cellY();
  int px = (int)rng.range(area.minX, std::max(area.minX, area.maxX)), py = (int)rng.range(area.minY, std::max(area.minY, area.maxY));
  if (mode % 7 >= 5) {
    // the client moves FIXED cells between two placement calls (mode 5: small offsets, mode 6: one
    // of them anywhere in the area): free space computed by an earlier call is no longer valid
    stat("client_moved_fixed_cells");
    int pick = -1, nf = 0;
    for (int i = 0; i < c.nbCells(); ++i)
      if (c.isFixed(i) && rng.below(++nf) == 0) pick = i;
    for (int i = 0; i < c.nbCells(); ++i) {
      if (!c.isFixed(i)) continue;
      if (mode % 7 == 5) {
        x[i] += (int)rng.range(-4 * mag, 4 * mag);
        y[i] += (int)rng.range(-2 * mag, 2 * mag);
      } else if (i == pick) {
        x[i] = px;
        y[i] = py;
      }
    }
    if (rng.chance(0.5)) {
      c.setCellX(x);
      c.setCellY(y);
    } else {
      std::vector<CellOrientation> o = c.cellOrientation();
      PlacementSolution sol;
      for (int i = 0; i < c.nbCells(); ++i) sol.emplace_back(x[i], y[i], o[i]);
      c.setSolution(sol);
    }
    return;
  }
  for (int i = 0; i < c.nbCells(); ++i) {
    if (c.isFixed(i)) continue;
    switch (mode % 5) {
      case 0: x[i] += (int)rng.range(-mag, mag); y[i] += (int)rng.range(-mag, mag); break;
      case 1: x[i] = (int)(area.maxX + rng.range(0, 50 * mag)) * (rng.chance(0.5) ? 1 : -1); y[i] = (int)(area.maxY + rng.range(0, 50 * mag)) * (rng.chance(0.5) ? 1 : -1); break;
      case 2: x[i] = px; y[i] = py; break;
      case 3: x[i] = (int)rng.range(area.minX, std::max(area.minX, area.maxX)); y[i] = (int)rng.range(area.minY, std::max(area.minY, area.maxY)); break;
      default: if (rng.chance(0.3)) { x[i] += (int)rng.range(-mag, mag); } break;
    }
  }
  c.setCellX(x);
  c.setCellY(y);
}

void CircuitExec::doSetOrient(Circuit &c, const Op &op) {
  uint64_t seed = op.args.size() > 0 ? (uint64_t)op.args[0] : 1;
  Rng rng(mix64(seed, 0x0417));
  std::vector<CellOrientation> o = c.cellOrientation();
  static const int unturned[] = {O_N, O_S, O_FN, O_FS}, turnedO[] = {O_W, O_E, O_FW, O_FE};
  for (int i = 0; i < c.nbCells(); ++i) {
    if (c.isFixed(i) || c.cellRowPolarity()[i] != CellRowPolarity::ANY) continue;
    int cur = static_cast<int>(o[i]);
    if (cur < 0 || cur > 7) continue;
    bool t = Snapshot::isTurned(cur);
    o[i] = static_cast<CellOrientation>(t ? turnedO[rng.below(4)] : unturned[rng.below(4)]);
  }
  c.setCellOrientation(o);
}

void CircuitExec::furtherCallAgrees(Circuit &a, int opIndex, int k) {
  // A further placement call on the circuit that went through the fault gives
  // the same result as the same call on a circuit rebuilt from its getters.
  Snapshot s = takeSnapshot(a);
  Circuit b = buildCircuit(specFromSnapshot(s));
  ColoquinteParameters p(1 + k % 3);
  p.detailed.nbPasses = 1;
  p.global.maxNbSteps = 3;
  int which = k % 3;  // 0 legalize, 1 detailed, 2 global
  auto call = [&](Circuit &c) {
    return guarded([&] {
      if (which == 0) c.legalize(p);
      else if (which == 1) c.placeDetailed(p);
      else c.placeGlobal(p);
    });
  };
  schedBegin(SM_XY, nullptr, 0);
  Outcome oa = call(a);
  Outcome ob = call(b);
  schedEnd(nullptr);
  stat("further_calls_after_fault");
  Snapshot sa = takeSnapshot(a), sb = takeSnapshot(b);
  std::string why;
  if (oa.kind != ob.kind || oa.what != ob.what)
    verdict("C10", "further-call-differs", "after a fault at callback " + std::to_string(k) + " a further call " + oa.str() + " but on a rebuilt circuit it " + ob.str(), opIndex);
  else if (!samePlacement(sa, sb, &why))
    verdict("C10", "further-call-differs", "after a fault at callback " + std::to_string(k) + " a further call places differently than on a rebuilt circuit: " + why, opIndex);
  // and the circuit is usable again afterwards
  protocolAfter(a, opIndex, oa.returned() ? "return" : "exception");
}

CircuitExec::StageRun CircuitExec::enumerateThrows(Circuit &c, int opIndex, const Op &op) {
  // dry run on a copy: how many callback invocations does this op have?
  Circuit dry = c;
  Op dop = op;
  dop.cb = 1;
  dop.enumThrow = 0;
  dop.actions.clear();
  StageRun d = runStage(dry, opIndex, dop, -1, 0, false, "op" + std::to_string(opIndex) + ".dry");
  int K = d.callbacks;
  stat("enum_instances");
  stat("enum_callback_indices", K);
  for (int k = 0; k < K; ++k) {
    Circuit ck = c;
    int kind = (k + (int)(op.args.empty() ? 0 : op.args[0])) % 3;
    std::string tag = "op" + std::to_string(opIndex) + ".throw@" + std::to_string(k);
    StageRun r = runStage(ck, opIndex, dop, k, kind, false, tag);
    if (r.out.returned())
      verdict("C10", "callback-exception-swallowed", tag + ": the callback threw but the call returned", opIndex);
    else if (!r.agentThrew)
      stat("enum_throw_not_reached");
    protocolAfter(ck, opIndex, "exception");
    furtherCallAgrees(ck, opIndex, k);
  }
  return d;
}

// ------------------------------------------------------------------ run ---
void CircuitExec::run() {
  stdoutSinkInstall();
  CrashMarker *mk = crashMarker();
  mk->op = -1;
  mk->opKind = -1;
  mk->phase = 0;
  std::optional<Circuit> holder;
  Outcome b = guarded([&] { holder.emplace(buildCircuit(plan_.circuit)); });
  if (!b.returned()) {
    res_.invalidPlan = true;
    res_.invalidWhy = "circuit construction " + b.str();
    tr_.finish();
    return;
  }
  Circuit *c = &*holder;
  std::optional<Circuit> copyHolder;
  tr_.ev("circuit cells=" + std::to_string(c->nbCells()) + " nets=" + std::to_string(c->nbNets()) + " rows=" + std::to_string(c->nbRows()) + " state=" + hex64(hashPlacement(*c)));
  for (int i = 0; i < (int)plan_.ops.size(); ++i) {
    const Op &op = plan_.ops[i];
    mk->op = i;
    mk->opKind = op.kind;
    mk->sub = -1;
    mk->phase = 0;
    stat(std::string("op_") + opKindName(op.kind));
    switch (op.kind) {
      case OP_GLOBAL:
      case OP_LEGALIZE:
      case OP_DETAILED: {
        StageRun dry;
        bool haveDry = false;
        if (op.enumThrow) {
          dry = enumerateThrows(*c, i, op);
          haveDry = true;
        }
        StageRun r = runStage(*c, i, op, -1, 0, false, "op" + std::to_string(i));
        if (haveDry && op.allocFail < 0) {
          // refused modifications change nothing: the call with a poking callback behaves
          // exactly like the same call with a purely observing one
          bool onlyPokes = true;
          for (auto &a : op.actions)
            if (a.kind != CB_POKE) onlyPokes = false;
          if (onlyPokes) {
            evald("C10");
            std::string why;
            if (dry.out.kind != r.out.kind || dry.out.what != r.out.what)
              verdict("C10", "refused-setter-affected-the-call", "with a callback that only attempts (refused) structural modifications the call " + r.out.str() + ", with a purely observing callback it " + dry.out.str(), i);
            else if (!samePlacement(dry.post, r.post, &why))
              verdict("C10", "refused-setter-affected-the-call", "refused structural modifications inside callbacks changed the result of the call: " + why, i);
          }
        }
        if (r.paramsPoisonedAt >= 0 && r.out.returned() && !r.paramsRejected) {
          // C19: values the parameter check rejects are never used for placement work.  A
          // parameter object the client spoils from inside a callback is either refused (the
          // call throws) or was never read again: the call then gives exactly what it gives
          // with a purely observing callback.
          bool onlyPoison = true;
          for (auto &a : op.actions)
            if (a.kind != CB_BADPARAMS) onlyPoison = false;
          if (onlyPoison && op.allocFail < 0) {
            evald("C19");
            Circuit shadow = buildCircuit(specFromSnapshot(r.pre));
            Op dop = op;
            dop.actions.clear();
            StageRun d = runStage(shadow, i, dop, -1, 0, true, "op" + std::to_string(i) + ".unspoiled");
            std::string why;
            if (!d.out.returned())
              verdict("C19", "invalid-params-from-callback-used", "op" + std::to_string(i) + ": with the parameter object spoiled at callback " + std::to_string(r.paramsPoisonedAt) + " the call returned, with an observing callback it " + d.out.str(), i);
            else if (!samePlacement(d.post, r.post, &why))
              verdict("C19", "invalid-params-from-callback-used", "op" + std::to_string(i) + ": the parameter object was spoiled at callback " + std::to_string(r.paramsPoisonedAt) + " (values check() rejects); the call returned and placed differently than with an observing callback: " + why, i);
          }
        }
        {
          // The probing setters re-install the circuit's own values; a library that keeps derived
          // data per object would drop it there, which would hide what an earlier call left behind
          // from the following ops.  Before the last op of a plan the probe therefore mostly runs on
          // a copy (the busy flag is part of the copied state), so that histories stay undisturbed.
          bool onCopy = (i + 1 < (int)plan_.ops.size()) && (i % 3 != 2);
          if (onCopy) {
            Circuit probe = *c;
            stat("protocol_probes_on_copy");
            protocolAfter(probe, i, r.out.returned() ? "return" : "exception");
          } else {
            protocolAfter(*c, i, r.out.returned() ? "return" : "exception");
          }
        }
        if (!r.out.returned() && !r.agentMutated && (i % 2 == 0)) {
          // ... followed by a further placement call (on a copy, so that the history continues unchanged)
          Circuit cc = *c;
          furtherCallAgrees(cc, i, i);
        }
        break;
      }
      case OP_PERTURB:
        doPerturb(*c, op);
        tr_.ev("op" + std::to_string(i) + " perturb -> " + hex64(hashPlacement(*c)));
        break;
      case OP_SET_ORIENT:
        doSetOrient(*c, op);
        tr_.ev("op" + std::to_string(i) + " set_orient -> " + hex64(hashPlacement(*c)));
        break;
      case OP_EXPAND_DENSITY: {
        double dens = op.fargs.size() > 0 ? op.fargs[0] : 0.7, margin = op.fargs.size() > 1 ? op.fargs[1] : 0.0, mw = op.fargs.size() > 2 ? op.fargs[2] : 1.0;
        Outcome o = guarded([&] { c->expandCellsToDensity(dens, margin, mw); });
        tr_.ev("op" + std::to_string(i) + " expand_density " + o.str());
        break;
      }
      case OP_EXPAND_FACTOR: {
        uint64_t seed = op.args.size() > 0 ? (uint64_t)op.args[0] : 1;
        double maxF = op.fargs.size() > 0 ? op.fargs[0] : 1.5, maxD = op.fargs.size() > 1 ? op.fargs[1] : 1.0, margin = op.fargs.size() > 2 ? op.fargs[2] : 0.0;
        Rng rng(mix64(seed, 0xfac7));
        std::vector<float> f(c->nbCells());
        for (auto &v : f) v = (float)rng.real(1.0, std::max(1.0, maxF));
        Outcome o = guarded([&] { c->expandCellsByFactor(f, maxD, margin); });
        tr_.ev("op" + std::to_string(i) + " expand_factor " + o.str());
        break;
      }
      case OP_SET_WEIGHTS: {
        uint64_t seed = op.args.size() > 0 ? (uint64_t)op.args[0] : 1;
        Rng rng(mix64(seed, 0x3e16));
        std::vector<float> w(c->nbNets());
        for (auto &v : w) v = (float)(rng.chance(0.3) ? rng.real(0.05, 1.0) : rng.range(1, 8));
        Outcome o = guarded([&] { c->setNetWeights(w); });
        if (!o.returned()) verdict("C10", "setNetWeights-refused", "setNetWeights with the right length " + o.str(), i);
        break;
      }
      case OP_BADCALL:
        badCall(*c, i, op.args.size() > 0 ? (int)op.args[0] : 0, op.args.size() > 1 ? op.args[1] : 0, false, &op.params);
        break;
      case OP_COPY: {
        copyHolder.emplace(*c);
        holder.emplace(*copyHolder);
        c = &*holder;
        tr_.ev("op" + std::to_string(i) + " copy -> " + hex64(hashPlacement(*c)));
        break;
      }
      case OP_CHECK: {
        Outcome o = guarded([&] { c->check(); });
        if (!o.returned()) verdict("C10", "check-failed-after-call", "Circuit::check() " + o.str(), i);
        break;
      }
      default: break;
    }
  }
  mk->op = -1;
  mk->opKind = -1;
  mk->phase = 0;
  tr_.ev("final " + hex64(hashPlacement(*c)));
  tr_.finish();
}


// ------------------------------------------------------------- C08 world ---
// One reference execution of the stage sequence (X-then-Y schedule, no
// callback, clock script 0) and a list of variants whose results must be
// bitwise identical after every stage.
void CircuitExec::runC08() {
  stdoutSinkInstall();
  CrashMarker *mk = crashMarker();
  mk->op = -1;
  mk->opKind = -1;
  mk->phase = 0;
  {
    Outcome b = guarded([&] { Circuit t = buildCircuit(plan_.circuit); (void)t; });
    if (!b.returned()) {
      res_.invalidPlan = true;
      res_.invalidWhy = "circuit construction " + b.str();
      tr_.finish();
      return;
    }
  }
  struct SeqResult {
    std::vector<Snapshot> after;
    std::vector<Outcome> out;
    std::vector<uint64_t> cbHashes;
  };
  size_t stateMark = 0;
  auto runSeq = [&](Circuit &c, const Variant *v, const std::string &tag, bool nested) {
    SeqResult sr;
    for (int i = 0; i < (int)plan_.ops.size(); ++i) {
      Op op = plan_.ops[i];
      if (op.kind != OP_GLOBAL && op.kind != OP_LEGALIZE && op.kind != OP_DETAILED) continue;
      op.actions.clear();
      op.enumThrow = 0;
      op.allocFail = -1;
      if (v) {
        op.cb = v->cb;
        op.schedMode = v->schedMode;
        op.sched = v->sched;
        op.clock = v->clock;
        op.stdoutBad = v->stdoutBad;
      } else {
        op.cb = 0;
        op.schedMode = SM_XY;
        op.sched.clear();
        op.clock = 0;
        op.stdoutBad = 0;
      }
      size_t h0 = res_.stateHashes.size();
      (void)h0;
      StageRun r = runStage(c, i, op, -1, 0, nested, tag + ".op" + std::to_string(i));
      sr.after.push_back(r.post);
      sr.out.push_back(r.out);
    }
    return sr;
  };
  (void)stateMark;
  Circuit refC = buildCircuit(plan_.circuit);
  SeqResult ref = runSeq(refC, nullptr, "ref", false);
  stat("c08_reference_runs");
  auto compare = [&](const SeqResult &got, const std::string &what, int vi) {
    for (size_t s = 0; s < ref.after.size() && s < got.after.size(); ++s) {
      if (ref.out[s].kind != got.out[s].kind || ref.out[s].what != got.out[s].what) {
        verdict("C08", "outcome-differs-" + what, "variant " + std::to_string(vi) + " (" + what + ") stage " + std::to_string(s) + ": reference " + ref.out[s].str() + ", variant " + got.out[s].str(), vi);
        return;
      }
      std::string why;
      if (!samePlacement(ref.after[s], got.after[s], &why)) {
        verdict("C08", "result-differs-" + what, "variant " + std::to_string(vi) + " (" + what + ") differs from the reference after stage " + std::to_string(s) + ": " + why, vi);
        return;
      }
    }
    stat("c08_variant_comparisons");
    evald("C08");
  };
  for (int vi = 0; vi < (int)plan_.variants.size(); ++vi) {
    const Variant &v = plan_.variants[vi];
    std::string what = variantModeName(v.mode);
    std::string tag = "v" + std::to_string(vi) + "." + what;
    mk->sub = vi;
    stat("c08_variant_" + what);
    switch (v.mode) {
      default:
      case VM_FRESH: {
        Circuit c = buildCircuit(plan_.circuit);
        compare(runSeq(c, &v, tag, false), what, vi);
        break;
      }
      case VM_COPY: {
        Circuit c0 = buildCircuit(plan_.circuit);
        Circuit c = c0;
        compare(runSeq(c, &v, tag, false), what, vi);
        break;
      }
      case VM_TWICE: {
        Circuit c1 = buildCircuit(plan_.circuit);
        compare(runSeq(c1, &v, tag + ".1", false), what, vi);
        Circuit c2 = buildCircuit(plan_.circuit);
        compare(runSeq(c2, &v, tag + ".2", false), what, vi);
        break;
      }
      case VM_HISTORY: {
        // The object first lives through something else: every cell (fixed ones too) is moved,
        // the library is made to look at that state (a placement call or read-only queries), then
        // positions and orientations are put back through the setters.  The public state is the
        // initial one again, so the stage sequence must give the reference results.
        Circuit c = buildCircuit(plan_.circuit);
        Snapshot init = takeSnapshot(c);
        std::vector<int> x0 = c.cellX(), y0 = c.cellY();
        std::vector<CellOrientation> o0 = c.cellOrientation();
        Rng hr(mix64(plan_.seed, 0x4157 + (uint64_t)vi));
        int H = init.rows.empty() ? 4 : std::max(1, init.rows[0].maxY - init.rows[0].minY);
        std::vector<int> x = x0, y = y0;
        for (int i = 0; i < (int)x.size(); ++i) {
          if (std::abs((long long)x[i]) > (1 << 28) || std::abs((long long)y[i]) > (1 << 28)) continue;
          x[i] += (int)hr.range(-6 * H, 6 * H);
          y[i] += (int)hr.range(-3, 3) * H;
        }
        c.setCellX(x);
        c.setCellY(y);
        int what3 = (int)hr.below(4);
        if (what3 == 3) {
          Outcome q = guarded([&] {
            (void)c.computeRows().size();
            (void)c.report();
            (void)c.hpwl();
          });
          (void)q;
        } else {
          Op hop;
          hop.kind = what3 == 0 ? OP_LEGALIZE : what3 == 1 ? OP_DETAILED : OP_GLOBAL;
          hop.params.effort = 1;
          hop.params.ov.emplace_back("g.maxNbSteps", 3.0);
          hop.params.ov.emplace_back("d.nbPasses", 1.0);
          hop.schedMode = v.schedMode;
          hop.sched = v.sched;
          runStage(c, -1, hop, -1, 0, false, tag + ".history");
        }
        c.setCellX(x0);
        c.setCellY(y0);
        c.setCellOrientation(o0);
        std::string fd = frameDiff(init, takeSnapshot(c), 1), why;
        if (!fd.empty() || !samePlacement(init, takeSnapshot(c), &why)) {
          stat("c08_history_state_not_restorable");  // the history changed more than the setters restore
          break;
        }
        compare(runSeq(c, &v, tag, false), what, vi);
        break;
      }
      case VM_AFTER_OTHER: {
        if (!plan_.other.cells.empty()) {
          Circuit o = buildCircuit(plan_.other);
          Op oop;
          oop.kind = OP_GLOBAL;
          oop.params.effort = 2;
          oop.params.ov.emplace_back("g.maxNbSteps", 5.0);
          oop.schedMode = v.schedMode;
          oop.sched = v.sched;
          runStage(o, -1, oop, -1, 0, false, tag + ".other-global");
          oop.kind = OP_DETAILED;
          runStage(o, -1, oop, -1, 0, false, tag + ".other-detailed");
        }
        Circuit c = buildCircuit(plan_.circuit);
        compare(runSeq(c, &v, tag, false), what, vi);
        break;
      }
      case VM_NESTED: {
        if (plan_.other.cells.empty()) {
          Circuit c = buildCircuit(plan_.circuit);
          compare(runSeq(c, &v, tag, false), what, vi);
          break;
        }
        Circuit o = buildCircuit(plan_.other);
        Op oop;
        oop.kind = OP_GLOBAL;
        oop.cb = 1;
        oop.params.effort = 2;
        oop.params.ov.emplace_back("g.maxNbSteps", 4.0);
        oop.schedMode = v.schedMode;
        oop.sched = v.sched;
        oop.clock = v.clock;
        bool done = false;
        SeqResult got;
        int at = v.sched.empty() ? 1 : (std::abs(v.sched[0]) % 3);
        hook_ = [&](int k) {
          if (done || k < at) return;
          done = true;
          ++nestDepth_;
          Circuit c = buildCircuit(plan_.circuit);
          Variant inner = v;
          got = runSeq(c, &inner, tag + ".inner", true);
          --nestDepth_;
        };
        runStage(o, -1, oop, -1, 0, false, tag + ".outer");
        hook_ = nullptr;
        if (done) {
          compare(got, what, vi);
          stat("c08_nested_runs_completed");
        }
        break;
      }
      case VM_FREERUN:
      case VM_PINNED: {
        Variant fv = v;
        fv.schedMode = SM_FREE;
        cpu_set_t saved;
        bool pinned = false;
        if (v.mode == VM_PINNED && sched_getaffinity(0, sizeof saved, &saved) == 0) {
          cpu_set_t one;
          CPU_ZERO(&one);
          int first = -1;
          for (int i = 0; i < CPU_SETSIZE; ++i)
            if (CPU_ISSET(i, &saved)) {
              first = i;
              break;
            }
          if (first >= 0) {
            CPU_SET(first, &one);
            pinned = sched_setaffinity(0, sizeof one, &one) == 0;
          }
        }
        Circuit c = buildCircuit(plan_.circuit);
        SeqResult got = runSeq(c, &fv, tag, false);
        if (pinned) sched_setaffinity(0, sizeof saved, &saved);
        compare(got, what, vi);
        break;
      }
    }
  }
  mk->op = -1;
  mk->opKind = -1;
  mk->phase = 0;
  tr_.finish();
}

void execCircuit(const Plan &plan, const ExecOptions &opt, ExecResult &res) {
  CircuitExec e(plan, opt, res);
  e.run();
}

void execC08(const Plan &plan, const ExecOptions &opt, ExecResult &res) {
  CircuitExec e(plan, opt, res);
  e.runC08();
}

}  // namespace sim
