// The small worlds: histories of operations on one long-lived internal object
// checked op by op against a reference model (single-client refinement).
//   rowleg  : RowLegalizer              (C12)
//   density : DensityLegalizer          (C16)
//   incr    : IncrNetModel              (C09 b)
//   dplacer : DetailedPlacer passes     (C02, C04, C05, C09 c)
#include <algorithm>
#include <cmath>
#include <climits>
#include <optional>
#include <sstream>
#include <stdexcept>

#include "coloquinte.hpp"
#include "exec.hpp"
#include "place_detailed/incr_net_model.hpp"
#include "place_detailed/place_detailed.hpp"
#include "place_detailed/row_legalizer.hpp"
#include "place_global/density_legalizer.hpp"
#include "world.hpp"

namespace sim {
using namespace coloquinte;

namespace {
struct Ctx {
  const Plan &plan;
  ExecResult &res;
  Tracer tr;
  Ctx(const Plan &p, const ExecOptions &o, ExecResult &r) : plan(p), res(r), tr(r, o) {}
  void verdict(const std::string &prop, const std::string &clause, const std::string &detail, int op) {
    for (auto &v : res.verdicts)
      if (v.prop == prop && v.clause == clause) return;
    Verdict v;
    v.prop = prop;
    v.clause = clause;
    v.detail = detail;
    v.op = op;
    res.verdicts.push_back(v);
    tr.ev("VERDICT " + prop + " " + clause + " op" + std::to_string(op) + ": " + detail);
  }
  void stat(const std::string &k, long long d = 1) { res.stats.inc(k, d); }
};

std::string vecStr(const std::vector<int> &v) {
  std::ostringstream os;
  os << "[";
  for (size_t i = 0; i < v.size(); ++i) os << (i ? "," : "") << v[i];
  os << "]";
  return os.str();
}

template <class F>
std::string tryCall(F &&f) {
  try {
    f();
    return "";
  } catch (const std::exception &e) {
    return std::string("threw ") + e.what();
  } catch (...) {
    return "threw a non-std exception";
  }
}
}  // namespace

// ===================================================================== C12 ==
namespace {
// Exact optimum of the ordered single-row problem: minimise sum w_i |p_i-t_i|
// s.t. b <= p_1, p_i + w_i <= p_{i+1}, p_n + w_n <= e.  With q_i = p_i minus
// the widths before i this is weighted L1 isotonic regression in a box, whose
// optimum is attained on the candidate set {t_j - cum_j} U {lo, hi}.
__int128 rowOptimum(long long b, long long e, const std::vector<std::pair<int, int>> &cells) {
  int n = (int)cells.size();
  if (n == 0) return 0;
  std::vector<long long> cum(n + 1, 0);
  for (int i = 0; i < n; ++i) cum[i + 1] = cum[i] + cells[i].first;
  long long lo = b, hi = e - cum[n];
  std::vector<long long> cand = {lo, hi};
  for (int i = 0; i < n; ++i) {
    long long a = (long long)cells[i].second - cum[i];
    cand.push_back(std::min(std::max(a, lo), hi));
  }
  std::sort(cand.begin(), cand.end());
  cand.erase(std::unique(cand.begin(), cand.end()), cand.end());
  int m = (int)cand.size();
  const __int128 INF = (__int128)1 << 120;
  std::vector<__int128> dp(m, 0), nx(m);
  for (int i = 0; i < n; ++i) {
    long long a = (long long)cells[i].second - cum[i];
    __int128 best = INF;
    for (int v = 0; v < m; ++v) {
      best = std::min(best, dp[v]);
      long long d = cand[v] - a;
      if (d < 0) d = -d;
      nx[v] = best + (__int128)cells[i].first * d;
    }
    dp = nx;
  }
  __int128 r = INF;
  for (int v = 0; v < m; ++v) r = std::min(r, dp[v]);
  return r;
}
std::string i128(__int128 v) {
  if (v == 0) return "0";
  bool neg = v < 0;
  if (neg) v = -v;
  std::string s;
  while (v > 0) {
    s += (char)('0' + (int)(v % 10));
    v /= 10;
  }
  if (neg) s += '-';
  std::reverse(s.begin(), s.end());
  return s;
}
}  // namespace

void execRowLeg(const Plan &plan, const ExecOptions &opt, ExecResult &res) {
  Ctx cx(plan, opt, res);
  long long b = plan.head.size() > 0 ? plan.head[0] : 0, e = plan.head.size() > 1 ? plan.head[1] : 10;
  if (e < b || b < -(1LL << 23) || e > (1LL << 23)) {
    res.invalidPlan = true;
    res.invalidWhy = "bad segment";
    cx.tr.finish();
    return;
  }
  CrashMarker *mk = crashMarker();
  mk->dom07 = 1;
  RowLegalizer leg((int)b, (int)e), twin((int)b, (int)e);
  std::vector<std::pair<int, int>> pushed;  // (width, target)
  __int128 sumCosts = 0;
  long long used = 0;
  bool queriedSinceTwinSync = false;
  cx.tr.ev("segment [" + std::to_string(b) + "," + std::to_string(e) + ")");
  auto comparePlacements = [&](int i, const char *when) {
    std::vector<int> a = leg.getPlacement(), t = twin.getPlacement();
    if (a != t)
      cx.verdict("C12", "query-changed-state", std::string(when) + ": placement " + vecStr(a) + " differs from that of a twin that received the same insertions but no cost queries " + vecStr(t), i);
  };
  for (int i = 0; i < (int)plan.gops.size(); ++i) {
    const GOp &g = plan.gops[i];
    mk->op = i;
    mk->opKind = 100;
    long long w = g.a.size() > 0 ? g.a[0] : 1, t = g.a.size() > 1 ? g.a[1] : 0;
    if (g.name == "clear") {
      leg.clear();
      twin.clear();
      pushed.clear();
      sumCosts = 0;
      used = 0;
      cx.tr.ev("clear");
      cx.stat("rowleg_clear");
      continue;
    }
    if (g.name == "place") {
      comparePlacements(i, "getPlacement");
      cx.stat("rowleg_place");
      continue;
    }
    if (w < 1 || w > (1LL << 22) || std::llabs(t) > (1LL << 23)) continue;
    if (used + w > e - b) {
      cx.stat("rowleg_skipped_no_space");
      continue;  // Abacus only queries/pushes when the cell fits
    }
    if (g.name == "cost") {
      long long c1 = leg.getCost((int)w, (int)t);
      long long c2 = leg.getCost((int)w, (int)t);
      cx.tr.ev("cost w=" + std::to_string(w) + " t=" + std::to_string(t) + " -> " + std::to_string(c1));
      cx.stat("rowleg_cost_queries");
      cx.stat("oracle_evals_C12");
      queriedSinceTwinSync = true;
      if (c1 != c2)
        cx.verdict("C12", "query-changed-state", "two consecutive getCost(" + std::to_string(w) + "," + std::to_string(t) + ") returned " + std::to_string(c1) + " then " + std::to_string(c2), i);
      long long ct = twin.getCost((int)w, (int)t);
      // (the twin is queried here only to compare; a fresh twin is rebuilt below)
      if (ct != c1)
        cx.verdict("C12", "query-changed-state", "getCost(" + std::to_string(w) + "," + std::to_string(t) + ") = " + std::to_string(c1) + " but " + std::to_string(ct) + " on a twin with the same insertions", i);
      // rebuild the twin without any query
      twin = RowLegalizer((int)b, (int)e);
      for (auto &p : pushed) twin.push(p.first, p.second);
      comparePlacements(i, "after getCost");
      continue;
    }
    if (g.name == "push") {
      long long predicted = leg.getCost((int)w, (int)t);
      long long got = leg.push((int)w, (int)t);
      long long gotTwin = twin.push((int)w, (int)t);
      pushed.emplace_back((int)w, (int)t);
      used += w;
      sumCosts += got;
      cx.tr.ev("push w=" + std::to_string(w) + " t=" + std::to_string(t) + " -> " + std::to_string(got));
      cx.stat("rowleg_pushes");
      cx.stat("oracle_evals_C12");
      if (predicted != got)
        cx.verdict("C12", "predicted-cost-differs", "getCost(" + std::to_string(w) + "," + std::to_string(t) + ") = " + std::to_string(predicted) + " but push returned " + std::to_string(got), i);
      if (gotTwin != got && queriedSinceTwinSync)
        cx.verdict("C12", "query-changed-state", "push(" + std::to_string(w) + "," + std::to_string(t) + ") returned " + std::to_string(got) + " but " + std::to_string(gotTwin) + " on a twin that was never queried", i);
      std::vector<int> pl = leg.getPlacement();
      if (pl.size() != pushed.size()) {
        cx.verdict("C12", "placement-size", "getPlacement returned " + std::to_string(pl.size()) + " positions for " + std::to_string(pushed.size()) + " cells", i);
        continue;
      }
      __int128 cost = 0;
      bool shapeOk = true;
      for (size_t k = 0; k < pl.size(); ++k) {
        long long p = pl[k];
        if (p < b || p + pushed[k].first > e) {
          cx.verdict("C12", "outside-segment", "cell " + std::to_string(k) + " at " + std::to_string(p) + " width " + std::to_string(pushed[k].first) + " outside [" + std::to_string(b) + "," + std::to_string(e) + ")", i);
          shapeOk = false;
        }
        if (k + 1 < pl.size() && p + pushed[k].first > pl[k + 1]) {
          cx.verdict("C12", "order-or-overlap", "cells " + std::to_string(k) + " and " + std::to_string(k + 1) + " out of order or overlapping: " + vecStr(pl), i);
          shapeOk = false;
        }
        long long d = p - pushed[k].second;
        if (d < 0) d = -d;
        cost += (__int128)pushed[k].first * d;
      }
      __int128 optimum = rowOptimum(b, e, pushed);
      if (shapeOk && cost != optimum)
        cx.verdict("C12", "placement-not-optimal", "placement " + vecStr(pl) + " costs " + i128(cost) + ", optimum is " + i128(optimum), i);
      if (sumCosts != optimum) {
        bool rightEnd = !pl.empty() && (long long)pl.back() + pushed.back().first == e;
        cx.verdict("C12", "cost-sum-drift", "returned costs sum to " + i128(sumCosts) + " but the minimum total displacement is " + i128(optimum) + (rightEnd ? " (last cell pressed against the right end)" : ""), i);
      }
      if (!pl.empty() && (long long)pl.back() + pushed.back().first == e) cx.stat("probe_rowleg_pressed_right_end");
      if (cost > 0) cx.stat("probe_rowleg_nonzero_cost");
      std::string chk = tryCall([&] { leg.check(); });
      if (!chk.empty()) cx.verdict("C12", "check-threw", "RowLegalizer::check " + chk, i);
      comparePlacements(i, "after push");
      cx.res.stateHashes.push_back(mix64(hashStr(vecStr(pl)), i));
      if (cx.res.stateHashes.size() > 64) cx.res.stateHashes.pop_back();
    }
  }
  mk->op = -1;
  mk->opKind = -1;
  cx.stat("ticks", (long long)plan.gops.size());
  cx.tr.finish();
}

// ===================================================================== C16 ==
namespace {
DensityLegalizer::Parameters legParamsFrom(const ColoquinteParameters &params, const DensityLegalizer &leg) {
  auto rlp = params.global.roughLegalization;
  LegalizationModel m = rlp.costModel;
  DensityLegalizer::Parameters lp;
  lp.nbSteps = rlp.nbSteps;
  lp.costModel = rlp.costModel;
  lp.lineReoptSize = rlp.lineReoptSize;
  lp.lineReoptOverlap = rlp.lineReoptOverlap;
  lp.diagReoptSize = rlp.diagReoptSize;
  lp.diagReoptOverlap = rlp.diagReoptOverlap;
  lp.squareReoptSize = rlp.squareReoptSize;
  lp.squareReoptOverlap = rlp.squareReoptOverlap;
  lp.unidimensionalTransport = rlp.unidimensionalTransport && m == LegalizationModel::L1;
  lp.coarseningLimit = rlp.coarseningLimit;
  if (m == LegalizationModel::L1 || m == LegalizationModel::L2 || m == LegalizationModel::LInf) {
    float dist = leg.placementArea().width() + leg.placementArea().height();
    lp.quadraticPenaltyFactor = dist > 0 ? rlp.quadraticPenalty / dist : 0.0;
  }
  return lp;
}
}  // namespace

void execDensity(const Plan &plan, const ExecOptions &opt, ExecResult &res) {
  Ctx cx(plan, opt, res);
  stdoutSinkInstall();
  CrashMarker *mk = crashMarker();
  std::optional<Circuit> ch;
  std::string err = tryCall([&] { ch.emplace(buildCircuit(plan.circuit)); });
  if (!err.empty()) {
    res.invalidPlan = true;
    res.invalidWhy = "circuit construction " + err;
    cx.tr.finish();
    return;
  }
  Circuit &circuit = *ch;
  // parameters: effort + overrides carried by a pseudo op 0
  ParamSpec ps;
  if (!plan.ops.empty()) ps = plan.ops[0].params;
  if (ps.effort < 1 || ps.effort > 9) ps.effort = 3;
  ColoquinteParameters params = buildParams(ps);
  try {
    params.check();
  } catch (const std::exception &ex) {
    res.invalidPlan = true;
    res.invalidWhy = std::string("parameters rejected: ") + ex.what();
    cx.tr.finish();
    return;
  }
  float sizeFactor = params.global.roughLegalization.binSize;
  float sideMargin = params.global.roughLegalization.sideMargin;
  Snapshot snap = takeSnapshot(circuit);
  struct Reg {
    long long x0, x1, y0, y1;
  };
  std::vector<Reg> regs;
  bool marginClause = true;
  bool regionMode = !plan.head.empty() && plan.head[0] == 1;
  std::optional<DensityLegalizer> lh;
  mk->op = 0;
  mk->opKind = 101;
  mk->dom07 = 1;
  if (regionMode) {
    // the grid is built directly from a list of disjoint regions (any heights),
    // demands are the areas of the movable cells
    long long binSize = plan.head.size() > 1 ? plan.head[1] : 4;
    std::vector<Rectangle> regions;
    for (auto &r : snap.rows) {
      if (r.maxX <= r.minX || r.maxY <= r.minY) continue;
      regions.emplace_back(r.minX, r.maxX, r.minY, r.maxY);
      regs.push_back({r.minX, r.maxX, r.minY, r.maxY});
    }
    bool disjoint = true;
    for (size_t i = 0; i < regs.size(); ++i)
      for (size_t j = i + 1; j < regs.size(); ++j)
        if (regs[i].x0 < regs[j].x1 && regs[j].x0 < regs[i].x1 && regs[i].y0 < regs[j].y1 && regs[j].y0 < regs[i].y1) disjoint = false;
    if (regions.empty() || !disjoint || binSize < 1) {
      res.invalidPlan = true;
      res.invalidWhy = "regions empty or overlapping";
      cx.tr.finish();
      return;
    }
    std::vector<int> dem;
    for (int c = 0; c < snap.n(); ++c) {
      long long a = snap.fixed[c] ? 0 : (long long)snap.w[c] * snap.h[c];
      dem.push_back((int)std::min<long long>(std::max<long long>(a, 0), 1 << 30));
    }
    DensityGrid grid((int)binSize, regions);
    lh.emplace(grid, dem);
    cx.stat("density_region_mode");
  } else {
    FreeSpace fs = computeFree(snap);
    if (fs.rowHeight <= 0 || !fs.disjointRows) {
      res.invalidPlan = true;
      res.invalidWhy = "rows not uniform/disjoint";
      cx.tr.finish();
      return;
    }
    int minCellHeight = INT_MAX;
    for (int c = 0; c < snap.n(); ++c)
      if (snap.h[c] > 0) minCellHeight = std::min(minCellHeight, snap.h[c]);
    if (minCellHeight == INT_MAX) {
      res.invalidPlan = true;
      res.invalidWhy = "no cell of positive height";
      cx.tr.finish();
      return;
    }
    int margin = sideMargin * minCellHeight;  // same float arithmetic as the documentation describes
    // reference regions: free segments clipped by the margin
    for (auto &kv : fs.levels)
      for (auto &iv : kv.second)
        if (iv.e - iv.b > 2LL * margin) regs.push_back({iv.b + margin, iv.e - margin, kv.first, (long long)kv.first + fs.rowHeight});
    if (regs.empty()) {
      res.invalidPlan = true;
      res.invalidWhy = "degenerate: no free segment survives the side margin";
      cx.tr.finish();
      return;
    }
    marginClause = (minCellHeight == fs.rowHeight) || margin == 0;
    lh.emplace(DensityLegalizer::fromIspdCircuit(circuit, sizeFactor, sideMargin));
  }
  DensityLegalizer &leg = *lh;
  leg.setParams(legParamsFrom(params, leg));
  int n = leg.nbCells();
  std::vector<float> tx(n, 0.0f), ty(n, 0.0f);
  for (int c = 0; c < n; ++c) {
    tx[c] = snap.x[c] + 0.5f * snap.pw(c);
    ty[c] = snap.y[c] + 0.5f * snap.ph(c);
  }
  leg.updateCellTargetX(tx);
  leg.updateCellTargetY(ty);
  std::vector<int> demand(n);
  for (int c = 0; c < n; ++c) demand[c] = leg.cellDemand(c);
  cx.tr.ev("grid " + std::to_string(leg.grid().nbBinsX()) + "x" + std::to_string(leg.grid().nbBinsY()) + " levels " + std::to_string(leg.nbLevelX()) + "/" + std::to_string(leg.nbLevelY()) + " cells " + std::to_string(n));

  auto invariants = [&](int i, const std::string &after) {
    // 1. allocation: each cell of non-zero demand in exactly one bin
    std::vector<int> seen(n, 0), bx(n, -1), by(n, -1);
    for (int x = 0; x < leg.nbBinsX(); ++x)
      for (int y = 0; y < leg.nbBinsY(); ++y)
        for (int c : leg.binCells(x, y)) {
          if (c < 0 || c >= n) {
            cx.verdict("C16", "bad-cell-index", after + ": bin (" + std::to_string(x) + "," + std::to_string(y) + ") lists cell " + std::to_string(c), i);
            return;
          }
          seen[c]++;
          bx[c] = x;
          by[c] = y;
        }
    for (int c = 0; c < n; ++c) {
      int want = demand[c] != 0 ? 1 : 0;
      if (seen[c] != want) {
        cx.verdict("C16", want ? (seen[c] == 0 ? "cell-lost" : "cell-duplicated") : "zero-area-cell-in-bin",
                   after + ": cell " + std::to_string(c) + " of demand " + std::to_string(demand[c]) + " appears in " + std::to_string(seen[c]) + " bins", i);
        return;
      }
      if (want && (leg.cellBinX(c) != bx[c] || leg.cellBinY(c) != by[c])) {
        cx.verdict("C16", "cell-to-bin-map-inconsistent", after + ": cell " + std::to_string(c) + " listed in bin (" + std::to_string(bx[c]) + "," + std::to_string(by[c]) + ") but cellBin says (" + std::to_string(leg.cellBinX(c)) + "," + std::to_string(leg.cellBinY(c)) + ")", i);
        return;
      }
    }
    // 2./3. capacity aggregation
    const DensityGrid &g = leg.grid();
    long long fineTotal = 0;
    for (int x = 0; x < g.nbBinsX(); ++x)
      for (int y = 0; y < g.nbBinsY(); ++y) fineTotal += g.binCapacity(x, y);
    long long viewTotal = 0;
    for (int x = 0; x < leg.nbBinsX(); ++x)
      for (int y = 0; y < leg.nbBinsY(); ++y) {
        long long cap = leg.binCapacity(x, y);
        viewTotal += cap;
        long long sum = 0;
        int fx0 = leg.xLimits_[leg.levelX_][x], fx1 = leg.xLimits_[leg.levelX_][x + 1];
        int fy0 = leg.yLimits_[leg.levelY_][y], fy1 = leg.yLimits_[leg.levelY_][y + 1];
        for (int a = fx0; a < fx1; ++a)
          for (int bb = fy0; bb < fy1; ++bb) sum += g.binCapacity(a, bb);
        if (sum != cap) {
          cx.verdict("C16", "coarse-capacity-not-sum-of-fine", after + ": view bin (" + std::to_string(x) + "," + std::to_string(y) + ") capacity " + std::to_string(cap) + " != sum of its fine bins " + std::to_string(sum), i);
          return;
        }
        if (g.binLimitX(fx0) != leg.binLimitX(x) || g.binLimitX(fx1) != leg.binLimitX(x + 1) || g.binLimitY(fy0) != leg.binLimitY(y) || g.binLimitY(fy1) != leg.binLimitY(y + 1)) {
          cx.verdict("C16", "view-limits-inconsistent", after + ": limits of view bin (" + std::to_string(x) + "," + std::to_string(y) + ") do not match its fine bins", i);
          return;
        }
      }
    if (viewTotal != fineTotal || leg.totalCapacity() != fineTotal) {
      cx.verdict("C16", "total-capacity-mismatch", after + ": view total " + std::to_string(viewTotal) + ", fine total " + std::to_string(fineTotal) + ", totalCapacity() " + std::to_string(leg.totalCapacity()), i);
      return;
    }
    // tiling: limits monotone and spanning the placement area
    for (int x = 0; x < leg.nbBinsX(); ++x)
      if (leg.binLimitX(x) > leg.binLimitX(x + 1)) {
        cx.verdict("C16", "bin-limits-not-monotone", after + ": x limits decrease at " + std::to_string(x), i);
        return;
      }
    for (int y = 0; y < leg.nbBinsY(); ++y)
      if (leg.binLimitY(y) > leg.binLimitY(y + 1)) {
        cx.verdict("C16", "bin-limits-not-monotone", after + ": y limits decrease at " + std::to_string(y), i);
        return;
      }
    long long ax0 = LLONG_MAX, ax1 = LLONG_MIN, ay0 = LLONG_MAX, ay1 = LLONG_MIN;
    for (auto &rg : regs) {
      ax0 = std::min(ax0, rg.x0);
      ax1 = std::max(ax1, rg.x1);
      ay0 = std::min(ay0, rg.y0);
      ay1 = std::max(ay1, rg.y1);
    }
    if (marginClause && (leg.binLimitX(0) != ax0 || leg.binLimitX(leg.nbBinsX()) != ax1 || leg.binLimitY(0) != ay0 || leg.binLimitY(leg.nbBinsY()) != ay1)) {
      cx.verdict("C16", "grid-does-not-span-area", after + ": grid spans [" + std::to_string(leg.binLimitX(0)) + "," + std::to_string(leg.binLimitX(leg.nbBinsX())) + "]x[" + std::to_string(leg.binLimitY(0)) + "," + std::to_string(leg.binLimitY(leg.nbBinsY())) + "], clipped free rows span [" + std::to_string(ax0) + "," + std::to_string(ax1) + "]x[" + std::to_string(ay0) + "," + std::to_string(ay1) + "]", i);
      return;
    }
    // 4. fine capacity equals free area inside the bin
    if (marginClause) {
      for (int x = 0; x < g.nbBinsX(); ++x)
        for (int y = 0; y < g.nbBinsY(); ++y) {
          long long bx0 = g.binLimitX(x), bx1 = g.binLimitX(x + 1), by0 = g.binLimitY(y), by1 = g.binLimitY(y + 1);
          long long area = 0;
          for (auto &rg : regs) {
            long long w = std::min(bx1, rg.x1) - std::max(bx0, rg.x0), h = std::min(by1, rg.y1) - std::max(by0, rg.y0);
            if (w > 0 && h > 0) area += w * h;
          }
          if (area != g.binCapacity(x, y)) {
            cx.verdict("C16", "bin-capacity-not-free-area", after + ": fine bin (" + std::to_string(x) + "," + std::to_string(y) + ") [" + std::to_string(bx0) + "," + std::to_string(bx1) + ")x[" + std::to_string(by0) + "," + std::to_string(by1) + ") has capacity " + std::to_string(g.binCapacity(x, y)) + " but contains free row area " + std::to_string(area), i);
            return;
          }
        }
    }
    // 6. reported coordinates inside the cell's bin
    std::vector<float> sx = leg.spreadCoordX(tx), sy = leg.spreadCoordY(ty);
    std::vector<float> qx = leg.simpleCoordX(), qy = leg.simpleCoordY();
    for (int c = 0; c < n; ++c) {
      if (demand[c] == 0) continue;
      double lx0 = leg.binLimitX(bx[c]), lx1 = leg.binLimitX(bx[c] + 1), ly0 = leg.binLimitY(by[c]), ly1 = leg.binLimitY(by[c] + 1);
      double tolx = 4.0 * 1.1920929e-7 * std::max({1.0, std::fabs(lx0), std::fabs(lx1)}) + 1e-6 * (lx1 - lx0);
      double toly = 4.0 * 1.1920929e-7 * std::max({1.0, std::fabs(ly0), std::fabs(ly1)}) + 1e-6 * (ly1 - ly0);
      auto inside = [](double v, double a, double b, double tol) { return std::isfinite(v) && v >= a - tol && v <= b + tol; };
      if (!inside(sx[c], lx0, lx1, tolx) || !inside(sy[c], ly0, ly1, toly) || !inside(qx[c], lx0, lx1, tolx) || !inside(qy[c], ly0, ly1, toly)) {
        std::ostringstream os;
        os << after << ": cell " << c << " in bin (" << bx[c] << "," << by[c] << ") = [" << lx0 << "," << lx1 << "]x[" << ly0 << "," << ly1 << "] is reported at spread (" << sx[c] << "," << sy[c] << ") / simple (" << qx[c] << "," << qy[c] << ")";
        cx.verdict("C16", "coordinate-outside-bin", os.str(), i);
        return;
      }
    }
    std::string chk = tryCall([&] { leg.check(); });
    if (!chk.empty()) cx.verdict("C16", "check-threw", after + ": " + chk, i);
    HashChain h;
    for (int c = 0; c < n; ++c) {
      h.add((uint64_t)(bx[c] + 1));
      h.add((uint64_t)(by[c] + 1));
    }
    h.add(leg.levelX());
    h.add(leg.levelY());
    if (res.stateHashes.size() < 64) res.stateHashes.push_back(h.h);
    cx.stat("states_exposed");
    cx.stat("oracle_evals_C16");
    cx.tr.ev(after + " level " + std::to_string(leg.levelX()) + "/" + std::to_string(leg.levelY()) + " state " + hex64(h.h));
  };

  invariants(-1, "construction");
  for (int i = 0; i < (int)plan.gops.size(); ++i) {
    const GOp &g = plan.gops[i];
    mk->op = i;
    bool did = true;
    if (g.name == "refineX") {
      if (leg.levelX() >= 1) leg.refineX(); else did = false;
    } else if (g.name == "refineY") {
      if (leg.levelY() >= 1) leg.refineY(); else did = false;
    } else if (g.name == "coarsenX") {
      if (leg.levelX() + 1 < leg.nbLevelX()) leg.coarsenX(); else did = false;
    } else if (g.name == "coarsenY") {
      if (leg.levelY() + 1 < leg.nbLevelY()) leg.coarsenY(); else did = false;
    } else if (g.name == "refine") {
      if (leg.levelX() >= 1 || leg.levelY() >= 1) leg.refine(); else did = false;
    } else if (g.name == "improve") {
      leg.improve();
    } else if (g.name == "run") {
      leg.run();
    } else if (g.name == "coarsenFully") {
      leg.coarsenFully();
    } else if (g.name == "refineFully") {
      leg.refineFully();
    } else if (g.name == "targets") {
      // a: mode seed
      long long mode = g.a.size() > 0 ? g.a[0] : 0;
      Rng r(mix64(g.a.size() > 1 ? (uint64_t)g.a[1] : 1, 0x7a6));
      Rectangle a = leg.placementArea();
      float px = (float)r.real(a.minX, a.maxX), py = (float)r.real(a.minY, a.maxY);
      for (int c = 0; c < n; ++c) {
        switch (mode % 4) {
          case 0: tx[c] = (float)r.real(a.minX, a.maxX); ty[c] = (float)r.real(a.minY, a.maxY); break;
          case 1: tx[c] = (float)(a.maxX + r.real(0, 1e6)) * (r.chance(0.5) ? 1.f : -1.f); ty[c] = (float)(a.maxY + r.real(0, 1e6)) * (r.chance(0.5) ? 1.f : -1.f); break;
          case 2: tx[c] = px; ty[c] = py; break;
          default: tx[c] = (float)r.range(a.minX, a.maxX); ty[c] = (float)r.range(a.minY, a.maxY); break;
        }
      }
      leg.updateCellTargetX(tx);
      leg.updateCellTargetY(ty);
    } else if (g.name == "demand") {
      // change demands without crossing zero (the documented restriction)
      Rng r(mix64(g.a.size() > 0 ? (uint64_t)g.a[0] : 1, 0xd3));
      for (int c = 0; c < n; ++c)
        if (demand[c] > 0) demand[c] = (int)std::max(1.0, std::min(1073741824.0, demand[c] * r.real(0.5, 2.0)));
      leg.updateCellDemand(demand);
    } else {
      did = false;
    }
    if (!did) {
      cx.stat("density_op_skipped_precondition");
      continue;
    }
    cx.stat("density_op_" + g.name);
    invariants(i, g.name);
  }
  mk->op = -1;
  mk->opKind = -1;
  cx.stat("ticks", (long long)plan.gops.size());
  cx.tr.finish();
}

// =================================================================== C09 b ==
namespace {
// pin offset along one axis under an orientation (DEF semantics), written
// independently of Circuit::pinXOffset/pinYOffset
long long refOffset(const Snapshot &s, int pin, int axis) {
  int c = s.pinCells[pin];
  long long w = s.w[c], h = s.h[c], px = s.pinX[pin], py = s.pinY[pin], ox = 0, oy = 0;
  switch (s.orient[c]) {
    default:
    case O_N: ox = px; oy = py; break;
    case O_S: ox = w - px; oy = h - py; break;
    case O_W: ox = h - py; oy = px; break;
    case O_E: ox = py; oy = w - px; break;
    case O_FN: ox = w - px; oy = py; break;
    case O_FS: ox = px; oy = h - py; break;
    case O_FW: ox = py; oy = px; break;
    case O_FE: ox = h - py; oy = w - px; break;
  }
  return axis ? oy : ox;
}
}  // namespace

void execIncr(const Plan &plan, const ExecOptions &opt, ExecResult &res) {
  Ctx cx(plan, opt, res);
  CrashMarker *mk = crashMarker();
  std::optional<Circuit> ch;
  std::string err = tryCall([&] { ch.emplace(buildCircuit(plan.circuit)); });
  if (!err.empty()) {
    res.invalidPlan = true;
    res.invalidWhy = "circuit construction " + err;
    cx.tr.finish();
    return;
  }
  Circuit &circuit = *ch;
  Snapshot snap = takeSnapshot(circuit);
  int n = snap.n();
  for (int c : snap.pinCells)
    if (c < 0 || c >= n) {
      res.invalidPlan = true;
      res.invalidWhy = "pin names a non-existent cell";
      cx.tr.finish();
      return;
    }
  int axis = plan.head.size() > 0 ? (int)(plan.head[0] & 1) : 0;
  // subset of cells the model owns (the others act as fixed pins)
  std::vector<int> cells;
  bool subset = false;
  for (auto &g : plan.gops)
    if (g.name == "subset") {
      subset = true;
      std::vector<char> used(n, 0);
      for (long long v : g.a) {
        if (n == 0) break;
        int c = (int)(((v % n) + n) % n);
        if (!used[c]) {
          used[c] = 1;
          cells.push_back(c);
        }
      }
      break;
    }
  if (!subset)
    for (int c = 0; c < n; ++c) cells.push_back(c);
  mk->op = 0;
  mk->opKind = 102;
  mk->dom07 = 1;
  std::optional<IncrNetModel> mh;
  if (subset) mh.emplace(axis ? IncrNetModel::yTopology(circuit, cells) : IncrNetModel::xTopology(circuit, cells));
  else mh.emplace(axis ? IncrNetModel::yTopology(circuit) : IncrNetModel::xTopology(circuit));
  IncrNetModel &model = *mh;
  std::vector<long long> pos(n);
  for (int c = 0; c < n; ++c) pos[c] = axis ? snap.y[c] : snap.x[c];
  auto reference = [&]() {
    long long total = 0;
    for (int net = 0; net < snap.nbNets(); ++net) {
      int b = snap.netLimits[net], e = snap.netLimits[net + 1];
      if (e <= b) continue;
      long long mn = LLONG_MAX, mx = LLONG_MIN;
      for (int p = b; p < e; ++p) {
        long long v = pos[snap.pinCells[p]] + refOffset(snap, p, axis);
        mn = std::min(mn, v);
        mx = std::max(mx, v);
      }
      total += mx - mn;
    }
    return total;
  };
  auto compare = [&](int i, const std::string &when) {
    long long ref = reference(), got = model.value();
    if (ref != got)
      cx.verdict("C09", "incremental-value", when + ": IncrNetModel::value()=" + std::to_string(got) + ", from-scratch " + (axis ? "y" : "x") + " length " + std::to_string(ref) + (subset ? " (model over a subset of the cells)" : ""), i);
    std::string chk = tryCall([&] { model.check(); });
    if (!chk.empty()) cx.verdict("C09", "incremental-check-threw", when + ": IncrNetModel::check " + chk, i);
    if (res.stateHashes.size() < 64) res.stateHashes.push_back(mix64((uint64_t)ref, (uint64_t)i + 77));
    cx.stat("states_exposed");
    cx.stat("oracle_evals_C09");
  };
  cx.tr.ev(std::string("incr axis=") + (axis ? "y" : "x") + " cells=" + std::to_string(n) + " owned=" + std::to_string(cells.size()) + " nets=" + std::to_string(snap.nbNets()));
  compare(-1, "construction");
  for (int i = 0; i < (int)plan.gops.size(); ++i) {
    const GOp &g = plan.gops[i];
    if (g.name != "move" || cells.empty() || g.a.size() < 2) continue;
    mk->op = i;
    int k = (int)(((g.a[0] % (long long)cells.size()) + cells.size()) % cells.size());
    long long np = g.a[1];
    if (std::llabs(np) > (1LL << 23)) continue;
    int modelIndex = subset ? k : cells[k];
    model.updateCellPos(modelIndex, (int)np);
    pos[cells[k]] = np;
    cx.stat("incr_updates");
    cx.tr.ev("move cell " + std::to_string(cells[k]) + " -> " + std::to_string(np) + " value " + std::to_string(model.value()));
    compare(i, "after update " + std::to_string(i));
  }
  mk->op = -1;
  mk->opKind = -1;
  cx.stat("ticks", (long long)plan.gops.size());
  cx.tr.finish();
}

// ================================================================== dplacer ==
void execDPlacer(const Plan &plan, const ExecOptions &opt, ExecResult &res) {
  Ctx cx(plan, opt, res);
  stdoutSinkInstall();
  CrashMarker *mk = crashMarker();
  std::optional<Circuit> ch;
  std::string err = tryCall([&] { ch.emplace(buildCircuit(plan.circuit)); });
  if (!err.empty()) {
    res.invalidPlan = true;
    res.invalidWhy = "circuit construction " + err;
    cx.tr.finish();
    return;
  }
  Circuit &circuit = *ch;
  ParamSpec ps;
  if (!plan.ops.empty()) ps = plan.ops[0].params;
  if (ps.effort < 1 || ps.effort > 9) ps.effort = 3;
  ColoquinteParameters params = buildParams(ps);
  mk->op = 0;
  mk->opKind = 103;
  Snapshot pre = takeSnapshot(circuit);
  FreeSpace fs = computeFree(pre);
  Domain dom = classify(pre, fs, 0.9);
  {
    bool positive = false;
    for (int i = 0; i < pre.n(); ++i)
      if (!pre.fixed[i] && pre.w[i] > 0 && pre.h[i] > 0) positive = true;
    mk->dom07 = (dom.magnitudeOk && !pre.rows.empty() && fs.rowHeight > 0 && positive) ? 1 : 0;
  }
  std::string lerr = tryCall([&] { circuit.legalize(params); });
  if (!lerr.empty() || !dom.c01) {
    // legalization refuses this input (or it is outside the domain): nothing to drive
    res.invalidPlan = true;
    res.invalidWhy = lerr.empty() ? "outside the C01 domain: " + dom.c01Why : "legalization " + lerr;
    cx.tr.finish();
    return;
  }
  Snapshot legal = takeSnapshot(circuit);
  std::optional<DetailedPlacer> ph;
  std::string cerr = tryCall([&] { ph.emplace(circuit, params); });
  if (!cerr.empty()) {
    cx.verdict("C02", "detailed-failed-where-legalization-succeeds", "DetailedPlacer construction " + cerr + " on a circuit Circuit::legalize accepted", 0);
    cx.tr.finish();
    return;
  }
  DetailedPlacer &pl = *ph;
  long long prevValue = pl.value();
  long long prevHpwl = refHpwl(legal);
  bool orientChanged = false;
  bool forced = false;
  auto observe = [&](int i, const std::string &after) {
    std::string chk = tryCall([&] { pl.check(); });
    if (!chk.empty()) cx.verdict("C02", "placer-check-threw", after + ": DetailedPlacer::check " + chk, i);
    Circuit out = circuit;
    pl.exportPlacement(out);
    Snapshot s = takeSnapshot(out);
    std::string l = checkLegality(s, fs);
    if (!l.empty()) cx.verdict("C02", "illegal-exposed-state", after + ": " + l, i);
    std::string o = checkOrientation(pre, s, fs);
    if (!o.empty()) cx.verdict("C04", "orientation", after + ": " + o, i);
    for (int c = 0; c < s.n(); ++c) {
      if (s.fixed[c]) continue;
      if (legal.ph(c) != fs.rowHeight && (s.x[c] != legal.x[c] || s.y[c] != legal.y[c] || s.orient[c] != legal.orient[c]))
        cx.verdict("C02", "multirow-cell-moved", after + ": cell " + std::to_string(c) + " moved after legalization", i);
      if (s.orient[c] != legal.orient[c]) orientChanged = true;
    }
    long long v = pl.value(), h = refHpwl(s);
    if (forced) {
      // a move applied regardless of its gain: monotonicity does not apply to it
      prevValue = v;
      prevHpwl = h;
    }
    if (v > prevValue)
      cx.verdict("C05", "value-increase", after + ": DetailedPlacer::value() rose " + std::to_string(prevValue) + " -> " + std::to_string(v), i);
    if (h > prevHpwl) {
      // the incremental model keeps the pin offsets of the legalized orientation
      bool onlyOffsets = orientChanged && v <= prevValue;
      cx.verdict("C05", onlyOffsets ? "hpwl-increase-with-orientation-change" : "hpwl-increase", after + ": HPWL rose " + std::to_string(prevHpwl) + " -> " + std::to_string(h) + (onlyOffsets ? " (a polarised cell changed row and orientation; the placer's own value, with frozen pin offsets, went " + std::to_string(prevValue) + " -> " + std::to_string(v) + ")" : ""), i);
    }
    if (!orientChanged && v != h)
      cx.verdict("C09", "placer-value-differs-from-hpwl", after + ": DetailedPlacer::value()=" + std::to_string(v) + " but the HPWL of the exported circuit is " + std::to_string(h) + " (no cell changed orientation)", i);
    if (h < prevHpwl) cx.stat("probe_pass_improved_hpwl");
    prevValue = v;
    prevHpwl = h;
    uint64_t hh = hashPlacement(s);
    if (res.stateHashes.size() < 64) res.stateHashes.push_back(hh);
    cx.stat("states_exposed");
    cx.stat("oracle_evals_C02");
    cx.stat("oracle_evals_C04");
    cx.stat("oracle_evals_C05");
    cx.stat("oracle_evals_C07");
    if (!orientChanged) cx.stat("oracle_evals_C09");
    cx.tr.ev(after + " value=" + std::to_string(v) + " hpwl=" + std::to_string(h) + " state=" + hex64(hh));
  };
  observe(-1, "construction");
  for (int i = 0; i < (int)plan.gops.size(); ++i) {
    const GOp &g = plan.gops[i];
    mk->op = i;
    int a0 = g.a.size() > 0 ? (int)std::max<long long>(0, std::min<long long>(g.a[0], 1000)) : 1;
    int a1 = g.a.size() > 1 ? (int)std::max<long long>(0, std::min<long long>(g.a[1], 1000)) : 1;
    std::string e2;
    if (g.name == "swaps") e2 = tryCall([&] { pl.runSwaps(a0, a1); });
    else if (g.name == "inserts") e2 = tryCall([&] { pl.runInserts(a0, a1); });
    else if (g.name == "shifts") e2 = tryCall([&] { pl.runShifts(std::max(1, a0), std::max(2, a1)); });
    else if (g.name == "reorder") e2 = tryCall([&] { pl.runReordering(std::max(1, std::min(a0, 3)), std::max(2, std::min(a1, 6))); });
    else if (g.name == "fswap" || g.name == "finsert" || g.name == "tswap" || g.name == "tinsert") {
      // single moves on the row data structure: f* are applied whenever they are
      // feasible (whatever their gain), t* through the placer's own try* (only if improving).
      // Arguments are interpreted modulo the placed cells / rows, so any numbers are valid.
      const DetailedPlacement &dp = pl.placement_;
      std::vector<int> placed;
      for (int c = 0; c < dp.nbCells(); ++c)
        if (!dp.isIgnored(c) && dp.isPlaced(c)) placed.push_back(c);
      if (placed.empty() || dp.nbRows() == 0) continue;
      long long r0 = g.a.size() > 0 ? g.a[0] : 0, r1 = g.a.size() > 1 ? g.a[1] : 0, r2 = g.a.size() > 2 ? g.a[2] : 0;
      auto md = [](long long v, long long m) { return (int)(((v % m) + m) % m); };
      int c1 = placed[md(r0, (long long)placed.size())];
      bool did = false;
      forced = g.name[0] == 'f';
      if (g.name == "fswap" || g.name == "tswap") {
        int c2 = placed[md(r1, (long long)placed.size())];
        e2 = tryCall([&] {
          if (forced) {
            if (dp.canSwap(c1, c2)) {
              pl.doSwap(c1, c2);
              did = true;
            }
          } else {
            did = pl.trySwap(c1, c2);
          }
        });
      } else {
        int row = md(r1, dp.nbRows());
        std::vector<int> cells = dp.rowCells(row);
        int pred = cells.empty() ? -1 : (md(r2, (long long)cells.size() + 1) == 0 ? -1 : cells[md(r2, (long long)cells.size() + 1) - 1]);
        e2 = tryCall([&] {
          if (forced) {
            if (dp.canInsert(c1, row, pred)) {
              pl.doInsert(c1, row, pred);
              did = true;
            }
          } else {
            did = pl.tryInsert(c1, row, pred);
          }
        });
      }
      cx.stat(did ? "dplacer_move_applied_" + g.name : "dplacer_move_refused_" + g.name);
      if (!e2.empty()) {
        cx.verdict("C02", "move-threw", g.name + " " + e2, i);
        break;
      }
      if (did) observe(i, g.name);
      forced = false;
      continue;
    } else continue;
    cx.stat("dplacer_pass_" + g.name);
    if (!e2.empty()) {
      cx.verdict("C02", "pass-threw", g.name + "(" + std::to_string(a0) + "," + std::to_string(a1) + ") " + e2, i);
      break;
    }
    observe(i, g.name + "(" + std::to_string(a0) + "," + std::to_string(a1) + ")");
  }
  mk->op = -1;
  mk->opKind = -1;
  cx.stat("ticks", (long long)plan.gops.size());
  cx.tr.finish();
}

}  // namespace sim
