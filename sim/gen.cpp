#include "gen.hpp"

#include <algorithm>
#include <cmath>

#include "sched.hpp"
#include "util.hpp"
#include "world.hpp"

namespace sim {

namespace {

struct GenCfg {
  int tier = 0;
  bool c06Domain = true;   // rows at least four row heights wide
  bool obstructions = true, splitRows = true, gaps = true;
  bool multiRow = true, macros = false, polarities = true, oddPol = false;
  bool turned = true, fixedCells = true, fixedZero = true, fixedNonObs = true;
  bool bigScale = false;
  double util = 0.6;
  int maxCells = 40;
  int orientPattern = 0;
  int initMode = 0;
  bool nets = true;
  int maxDegree = 6;
  bool offsetsOutside = false;
  bool fracWeights = false;
  int maxLevels = 8;
  int maxMagPow = 22;  // coordinates stay within 2^maxMagPow when scaled
  bool wideRows = false;  // rows thousands of row heights wide (many density bins)
  bool large = false;     // hundreds to 1500 movable cells on 10-40 row levels (rare in thorough, always in the exploratory tier 2)
};

// Swarm configuration: each run first decides which features exist at all.
GenCfg swarm(Rng &r, int tier) {
  GenCfg c;
  c.tier = tier;
  c.obstructions = r.chance(0.6);
  c.splitRows = r.chance(0.5);
  c.gaps = r.chance(0.4);
  c.multiRow = r.chance(0.5);
  c.macros = r.chance(0.15);
  c.polarities = r.chance(0.6);
  c.oddPol = r.chance(0.25);
  c.turned = r.chance(0.4);
  c.fixedCells = r.chance(0.7);
  c.fixedZero = r.chance(0.4);
  c.fixedNonObs = r.chance(0.5);
  c.bigScale = r.chance(0.2);
  static const double utils[] = {0.1, 0.3, 0.5, 0.7, 0.8, 0.9, 0.97};
  c.util = utils[r.below(7)];
  c.maxCells = tier ? (int)r.range(3, 160) : (int)r.range(2, 45);
  c.orientPattern = (int)r.below(6);
  c.initMode = (int)r.below(5);
  c.nets = r.chance(0.9);
  c.maxDegree = r.chance(0.3) ? 12 : 5;
  c.offsetsOutside = r.chance(0.25);
  c.fracWeights = r.chance(0.3);
  c.maxLevels = r.chance(0.2) ? 2 : 8;
  c.wideRows = r.chance(0.05);
  if (c.wideRows) {
    c.maxLevels = (int)r.range(1, 3);
    c.bigScale = r.chance(0.7);
    // no cells much lower than the rows here: bins are sized by the smallest positive cell
    // height, and thousands of row heights of width would mean millions of bins
    c.fixedZero = false;
    c.turned = false;
  }
  // large instances: drawn from a forked stream so that the other choices of a seed do not move
  Rng rl = r.fork("large");
  c.large = tier >= 2 || (tier == 1 && rl.chance(0.004));
  if (c.large) {
    c.wideRows = false;
    c.bigScale = false;
    c.maxCells = (int)rl.range(200, 1500);
    c.maxLevels = (int)rl.range(10, 40);
  }
  return c;
}

int rowOrientFor(int pattern, int level, Rng &r) {
  switch (pattern) {
    default:
    case 0: return (level % 2) ? O_FS : O_N;
    case 1: return (level % 2) ? O_N : O_FS;
    case 2: return O_N;
    case 3: return O_FS;
    case 4: {
      static const int o[] = {O_N, O_S, O_FN, O_FS};
      return o[r.below(4)];
    }
    case 5: return (level % 2) ? O_FN : O_S;
  }
}

struct Built {
  CircuitSpec spec;
  int H = 1;
};

Built genCircuit(Rng &r, const GenCfg &cfg) {
  Built out;
  CircuitSpec &s = out.spec;
  static const int hs[] = {1, 2, 3, 4, 6, 8, 10, 12};
  int Hb = hs[r.below(8)];
  int nL = (int)r.range(1, cfg.maxLevels);
  int minSeg = cfg.c06Domain ? 4 * Hb : 1;
  long long Wb = std::max<long long>(minSeg, (long long)Hb * r.range(4, 28) + r.range(0, Hb));
  if (cfg.wideRows) Wb = (long long)Hb * r.range(200, 1500);
  if (cfg.large) {
    nL = std::max(nL, cfg.maxLevels / 2);
    Wb = (long long)Hb * r.range(40, 150);
  }
  long long ox = r.range(-40, 40) * Hb, oy = r.range(-40, 40) * Hb;
  if (r.chance(0.3)) {
    ox = 0;
    oy = 0;
  }
  // rows
  long long y = oy;
  for (int l = 0; l < nL; ++l) {
    int orient = rowOrientFor(cfg.orientPattern, l, r);
    int nseg = cfg.splitRows ? (int)r.range(1, 3) : 1;
    // cut [ox, ox+Wb) into nseg pieces with optional holes between them
    std::vector<std::pair<long long, long long>> segs;
    long long cur = ox + (cfg.splitRows ? r.range(0, 2) * Hb : 0);
    long long end = ox + Wb;
    for (int k = 0; k < nseg; ++k) {
      long long remaining = end - cur;
      int left = nseg - k;
      if (remaining < (long long)minSeg * left) break;
      long long maxw = remaining - (long long)minSeg * (left - 1);
      long long w = left == 1 ? (r.chance(0.7) ? maxw : r.range(minSeg, maxw)) : r.range(minSeg, maxw);
      segs.emplace_back(cur, cur + w);
      cur += w + (r.chance(0.5) ? 0 : r.range(0, 3 * Hb));
    }
    if (segs.empty()) segs.emplace_back(ox, ox + std::max<long long>(Wb, minSeg));
    for (auto &sg : segs) {
      RowSpec rs;
      rs.minX = (int)sg.first;
      rs.maxX = (int)sg.second;
      rs.minY = (int)y;
      rs.maxY = (int)(y + Hb);
      rs.orient = orient;
      s.rows.push_back(rs);
    }
    long long gap = 0;
    if (cfg.gaps) {
      switch (r.below(6)) {
        case 0: gap = Hb; break;
        case 1: gap = 2 * Hb; break;
        case 2: gap = r.range(1, 3 * Hb); break;
        default: gap = 0;
      }
    }
    y += Hb + gap;
  }
  long long areaMinX = ox - 2 * Hb, areaMaxX = ox + Wb + 4 * Hb, areaMinY = oy - 2 * Hb, areaMaxY = y + 2 * Hb;
  // fixed cells
  if (cfg.fixedCells) {
    int nF = (int)r.range(0, 5);
    for (int i = 0; i < nF; ++i) {
      CellSpec k;
      k.fixed = 1;
      k.obs = cfg.fixedNonObs ? (r.chance(0.5) ? 1 : 0) : 1;
      if (!cfg.obstructions) k.obs = r.chance(0.2) ? 1 : 0;
      if (cfg.fixedZero && r.chance(0.3)) {
        k.w = r.chance(0.5) ? 0 : (int)r.range(0, 3);
        k.h = r.chance(0.5) ? 0 : (int)r.range(0, 3);
      } else {
        k.w = (int)r.range(1, std::max<long long>(1, Wb / 3));
        k.h = (int)r.range(1, 3 * Hb);
        if (r.chance(0.3)) k.h = Hb * (int)r.range(1, 3);
      }
      k.x = (int)r.range(areaMinX - 3 * Hb, areaMaxX);
      k.y = (int)r.range(areaMinY - 2 * Hb, areaMaxY);
      if (r.chance(0.4)) k.y = (int)(oy + Hb * r.range(0, nL));
      k.orient = r.chance(0.8) ? O_N : (int)r.below(8);
      k.pol = 0;
      s.cells.push_back(k);
    }
  }
  // free area with these obstructions
  long long freeArea = 0;
  {
    Snapshot snap;
    for (auto &k : s.cells) {
      snap.w.push_back(k.w);
      snap.h.push_back(k.h);
      snap.x.push_back(k.x);
      snap.y.push_back(k.y);
      snap.orient.push_back(k.orient);
      snap.pol.push_back(k.pol);
      snap.fixed.push_back(k.fixed);
      snap.obs.push_back(k.obs);
    }
    snap.rows = s.rows;
    snap.netLimits.push_back(0);
    FreeSpace fs = computeFree(snap);
    freeArea = fs.totalFree * Hb;
  }
  // movable cells
  long long target = (long long)(cfg.util * (double)freeArea);
  long long areaSoFar = 0;
  int nMov = 0;
  while (nMov < cfg.maxCells && (nMov == 0 || areaSoFar < target)) {
    CellSpec k;
    k.fixed = 0;
    k.obs = r.chance(0.9) ? 1 : 0;
    int rowsHigh = 1;
    double t = r.unit();
    if (cfg.macros && nL >= 5 && t < 0.04) rowsHigh = (int)r.range(5, std::min(8, nL));
    else if (cfg.multiRow && nL >= 2 && t < 0.2) rowsHigh = (int)r.range(2, std::min(3, nL));
    long long pw = rowsHigh >= 5 ? r.range(2 * Hb, 6 * Hb) : r.range(1, std::max(2, 2 * Hb + 2));
    if (r.chance(0.1)) pw = r.range(1, std::max<long long>(1, Wb / 2));
    long long ph = (long long)rowsHigh * Hb;
    if (areaSoFar + pw * ph > target && nMov > 0 && cfg.util < 1.0) {
      // shrink the last cell to approach the target utilisation
      long long room = (target - areaSoFar) / ph;
      if (room < 1) break;
      pw = std::min(pw, room);
    }
    int pol = P_ANY;
    if (cfg.polarities && r.chance(0.6)) {
      if (rowsHigh % 2) {
        static const int odd[] = {P_SAME, P_OPPOSITE};
        pol = odd[r.below(2)];
        if (cfg.oddPol && r.chance(0.3)) pol = r.chance(0.5) ? P_NW : P_SE;
      } else {
        pol = r.chance(0.5) ? P_NW : P_SE;
        if (cfg.oddPol && r.chance(0.3)) pol = r.chance(0.5) ? P_SAME : P_OPPOSITE;
      }
    }
    k.pol = pol;
    static const int unturned[] = {O_N, O_S, O_FN, O_FS}, turnedO[] = {O_W, O_E, O_FW, O_FE};
    if (pol == P_ANY && cfg.turned && r.chance(0.3)) {
      k.orient = turnedO[r.below(4)];
      k.w = (int)ph;  // placed height = cell width when turned
      k.h = (int)pw;
    } else {
      k.orient = unturned[r.below(4)];
      k.w = (int)pw;
      k.h = (int)ph;
    }
    s.cells.push_back(k);
    areaSoFar += pw * ph;
    ++nMov;
  }
  // initial positions
  long long px = r.range(areaMinX, areaMaxX), py = r.range(areaMinY, areaMaxY);
  for (auto &k : s.cells) {
    if (k.fixed) continue;
    switch (cfg.initMode) {
      default:
      case 0:
        k.x = (int)r.range(ox, ox + Wb);
        k.y = (int)r.range(oy, y);
        break;
      case 1:
        k.x = (int)((r.chance(0.5) ? areaMaxX + r.range(0, 30 * Hb) : areaMinX - r.range(0, 30 * Hb)));
        k.y = (int)((r.chance(0.5) ? areaMaxY + r.range(0, 30 * Hb) : areaMinY - r.range(0, 30 * Hb)));
        break;
      case 2:
        k.x = (int)px;
        k.y = (int)py;
        break;
      case 3:  // packed below
      case 4:
        k.x = (int)r.range(areaMinX, areaMaxX);
        k.y = (int)(oy + Hb * r.range(0, std::max(0, nL - 1)) + r.range(-1, 1));
        break;
    }
  }
  if (cfg.initMode == 3) {
    // pack row-high cells legally where possible (C11: directly constructed legal placements)
    Snapshot snap;
    for (auto &k : s.cells) {
      snap.w.push_back(k.w);
      snap.h.push_back(k.h);
      snap.x.push_back(k.x);
      snap.y.push_back(k.y);
      snap.orient.push_back(k.orient);
      snap.pol.push_back(k.pol);
      snap.fixed.push_back(k.fixed);
      snap.obs.push_back(k.obs);
    }
    snap.rows = s.rows;
    snap.netLimits.push_back(0);
    FreeSpace fs = computeFree(snap);
    struct Seg {
      int level;
      long long cur, end;
      int orient;
    };
    std::vector<Seg> segs;
    for (auto &kv : fs.levels)
      for (auto &iv : kv.second) segs.push_back({kv.first, iv.b, iv.e, fs.levelOrient[kv.first]});
    std::vector<int> order;
    for (int i = 0; i < (int)s.cells.size(); ++i)
      if (!s.cells[i].fixed) order.push_back(i);
    for (size_t i = order.size(); i > 1; --i) std::swap(order[i - 1], order[r.below(i)]);
    for (int ci : order) {
      CellSpec &k = s.cells[ci];
      bool t = Snapshot::isTurned(k.orient);
      long long pw = t ? k.h : k.w, ph = t ? k.w : k.h;
      if (ph != Hb) continue;
      std::vector<int> cand;
      for (int si = 0; si < (int)segs.size(); ++si) {
        if (segs[si].end - segs[si].cur < pw) continue;
        if (k.pol != P_ANY && expectedOrientation(k.pol, segs[si].orient) == O_INVALID) continue;
        cand.push_back(si);
      }
      if (cand.empty()) continue;
      Seg &sg = segs[cand[r.below(cand.size())]];
      long long slack = sg.end - sg.cur - pw;
      long long gap = r.chance(0.5) ? 0 : r.range(0, std::min<long long>(slack, 3 * Hb));
      k.x = (int)(sg.cur + gap);
      k.y = sg.level;
      if (k.pol != P_ANY) k.orient = expectedOrientation(k.pol, sg.orient);
      sg.cur = k.x + pw;
    }
  }
  // nets
  if (cfg.nets && !s.cells.empty()) {
    int n = (int)s.cells.size();
    int nNets = (int)r.range(0, std::max(1, (int)(n * r.real(0.3, 1.6))));
    for (int i = 0; i < nNets; ++i) {
      NetSpec net;
      int deg;
      double t = r.unit();
      if (t < 0.08) deg = 1;
      else if (t < 0.55) deg = 2;
      else if (t < 0.85) deg = (int)r.range(3, 4);
      else deg = (int)r.range(5, cfg.maxDegree);
      for (int p = 0; p < deg; ++p) {
        int c = (int)r.below(n);
        if (p > 0 && r.chance(0.05)) c = net.cells[0];  // repeated cell
        const CellSpec &k = s.cells[c];
        long long xo = r.range(0, std::max(0, k.w)), yo = r.range(0, std::max(0, k.h));
        if (cfg.offsetsOutside && r.chance(0.2)) {
          xo = r.range(-2LL * std::max(1, k.w), 3LL * std::max(1, k.w));
          yo = r.range(-2LL * std::max(1, k.h), 3LL * std::max(1, k.h));
        }
        net.cells.push_back(c);
        net.xo.push_back((int)xo);
        net.yo.push_back((int)yo);
      }
      net.weight = 1.0f;
      if (cfg.fracWeights) net.weight = r.chance(0.5) ? (float)r.real(0.1, 1.0) : (float)r.range(1, 6);
      s.nets.push_back(net);
    }
    // "degree 1..many": now and then a few nets with dozens of pins (clock/reset-like)
    if (r.chance(0.15)) {
      int nHuge = (int)r.range(1, 3);
      for (int i = 0; i < nHuge; ++i) {
        NetSpec net;
        int deg = (int)r.range(20, 90);
        for (int p = 0; p < deg; ++p) {
          int c = (int)r.below(n);
          const CellSpec &k = s.cells[c];
          net.cells.push_back(c);
          net.xo.push_back((int)r.range(0, std::max(0, k.w)));
          net.yo.push_back((int)r.range(0, std::max(0, k.h)));
        }
        s.nets.push_back(net);
      }
    }
  }
  // magnitude scaling: multiply everything by 2^k while staying within 2^22
  int H = Hb;
  if (cfg.bigScale) {
    long long M = 1;
    for (auto &rw : s.rows) M = std::max<long long>({M, std::llabs(rw.minX), std::llabs(rw.maxX), std::llabs(rw.minY), std::llabs(rw.maxY)});
    long long maxDim = 1;
    for (auto &k : s.cells) {
      M = std::max<long long>({M, std::llabs(k.x), std::llabs(k.y), (long long)k.w, (long long)k.h});
      maxDim = std::max<long long>(maxDim, (long long)std::max(1, k.w) * std::max(1, k.h));
    }
    for (auto &net : s.nets)
      for (size_t p = 0; p < net.cells.size(); ++p) M = std::max<long long>({M, std::llabs(net.xo[p]), std::llabs(net.yo[p])});
    int kmax = 0;
    while (kmax < 22 && (M << (kmax + 1)) <= (1LL << cfg.maxMagPow) && (maxDim << (2 * (kmax + 1))) < (1LL << 31)) ++kmax;
    int k = kmax > 0 ? (int)r.range(std::max(0, kmax - 3), kmax) : 0;
    long long u = 1LL << k;
    for (auto &rw : s.rows) {
      rw.minX *= u;
      rw.maxX *= u;
      rw.minY *= u;
      rw.maxY *= u;
    }
    for (auto &c : s.cells) {
      c.x *= u;
      c.y *= u;
      c.w *= u;
      c.h *= u;
    }
    for (auto &net : s.nets)
      for (size_t p = 0; p < net.cells.size(); ++p) {
        net.xo[p] *= u;
        net.yo[p] *= u;
      }
    H = (int)(Hb * u);
  }
  out.H = H;
  return out;
}

// ------------------------------------------------------------ parameters --
void genGlobalParams(Rng &r, ParamSpec &p, bool small) {
  auto set = [&](const char *k, double v) { p.ov.emplace_back(k, v); };
  int maxSteps = small ? (int)r.range(1, 12) : (int)r.range(1, 40);
  set("g.maxNbSteps", maxSteps);
  if (r.chance(0.3)) set("g.nbInitialSteps", (double)r.range(0, std::min(2, maxSteps - 1)));
  if (r.chance(0.3)) set("g.nbStepsBeforeRoughLegalization", (double)r.range(1, 3));
  if (r.chance(0.4)) {
    static const double gt[] = {0.0, 0.01, 0.13, 0.5, 1.0};
    set("g.gapTolerance", gt[r.below(5)]);
  }
  if (r.chance(0.4)) {
    static const double dt[] = {0.0, 0.5, 2.0, 10.0};
    set("g.distanceTolerance", dt[r.below(4)]);
  }
  if (r.chance(0.6)) {
    static const double eb[] = {-0.5, 0.0, 0.3, 0.5, 0.99, 1.0, 1.5};
    set("g.exportBlending", eb[r.below(7)]);
  }
  if (r.chance(0.4)) {
    static const double nz[] = {0.0, 1e-4, 0.01, 0.5, 2.0};
    set("g.noise", nz[r.below(5)]);
  }
  if (r.chance(0.3)) set("g.penaltyUpdateDistance", r.real(0.5, 50));
  if (r.chance(0.3)) set("g.penaltyUpdateBackoff", r.real(1.0, 4.0));
  if (r.chance(0.6)) set("cm.netModel", (double)r.below(4));
  if (r.chance(0.3)) set("cm.approximationDistance", r.chance(0.5) ? r.real(0.1, 5.0) : r.real(5.0, 1000.0));
  if (r.chance(0.2)) set("cm.approximationDistanceUpdateFactor", r.real(0.8, 1.2));
  if (r.chance(0.3)) set("cm.maxNbConjugateGradientSteps", (double)r.range(1, 200));
  if (r.chance(0.3)) {
    static const double tol[] = {1e-6, 1e-5, 1e-3, 0.1, 1.0};
    set("cm.conjugateGradientErrorTolerance", tol[r.below(5)]);
  }
  // rough legalization
  int costModel = r.chance(0.5) ? 0 : (int)r.below(6);
  if (r.chance(0.6)) set("rl.costModel", costModel); else costModel = 0;
  if (r.chance(0.3)) set("rl.nbSteps", (double)r.range(0, 3));
  if (r.chance(0.5)) set("rl.binSize", r.chance(0.5) ? (double)r.range(1, 25) : r.real(1.0, 25.0));
  bool uni = true;
  if (r.chance(0.4)) {
    uni = r.chance(0.5);
    set("rl.unidimensionalTransport", uni ? 1 : 0);
  }
  if (r.chance(0.5)) {
    int ls = (int)r.range(1, 8), ds = (int)r.range(1, 6), sq = (int)r.range(1, 5);
    if (r.chance(0.1)) ls = (int)r.range(9, 64);
    bool needTwo = !(uni && costModel == 0);
    if (needTwo && ls < 2 && ds < 2 && sq < 2) sq = 2;
    set("rl.lineReoptSize", ls);
    set("rl.lineReoptOverlap", ls > 1 ? (double)r.range(1, ls - 1) : 1.0);
    set("rl.diagReoptSize", ds);
    set("rl.diagReoptOverlap", ds > 1 ? (double)r.range(1, ds - 1) : 1.0);
    set("rl.squareReoptSize", sq);
    set("rl.squareReoptOverlap", sq > 1 ? (double)r.range(1, sq - 1) : 1.0);
  }
  if (r.chance(0.3)) set("rl.quadraticPenalty", r.chance(0.5) ? 0.0 : r.real(0.0, 1.0));
  if (r.chance(0.3)) set("rl.sideMargin", r.real(0.0, 1.2));
  if (r.chance(0.3)) {
    static const double cl[] = {0.0, 1.0, 10.0, 100.0, 1e6};
    set("rl.coarseningLimit", cl[r.below(5)]);
  }
  if (r.chance(0.3)) set("rl.targetBlending", r.real(-0.1, 0.9));
  // penalty
  if (r.chance(0.3)) set("pe.cutoffDistance", r.real(0.1, 100.0));
  if (r.chance(0.2)) set("pe.cutoffDistanceUpdateFactor", r.real(0.8, 1.2));
  if (r.chance(0.3)) set("pe.areaExponent", r.real(0.49, 1.01));
  if (r.chance(0.3)) set("pe.initialValue", r.chance(0.5) ? r.real(0.001, 0.1) : r.real(0.1, 10.0));
  if (r.chance(0.3)) set("pe.updateFactor", r.real(1.01, 1.99));
  if (r.chance(0.3)) set("pe.targetBlending", r.real(0.1, 1.1));
}

void genLegalParams(Rng &r, ParamSpec &p, bool inBand) {
  auto set = [&](const char *k, double v) { p.ov.emplace_back(k, v); };
  if (r.chance(0.6)) {
    if (inBand) set("l.orderingWidth", r.chance(0.3) ? (r.chance(0.5) ? 0.0 : 1.0) : r.real(0.0, 1.0));
    else {
      static const double ow[] = {-1.0, -0.5, 0.0, 0.2, 0.5, 1.0, 1.5, 2.0};
      set("l.orderingWidth", ow[r.below(8)]);
    }
  }
  if (r.chance(0.4)) set("l.orderingY", r.chance(0.3) ? (r.chance(0.5) ? -0.2 : 0.2) : r.real(-0.2, 0.2));
  if (r.chance(0.4)) {
    static const double oh[] = {-10.0, -1.0, 0.0, 1.0, 100.0};
    set("l.orderingHeight", oh[r.below(5)]);
  }
}

void genDetailedParams(Rng &r, ParamSpec &p, bool reordering) {
  auto set = [&](const char *k, double v) { p.ov.emplace_back(k, v); };
  if (r.chance(0.6)) set("d.nbPasses", (double)r.range(0, 4));
  if (r.chance(0.5)) set("d.localSearchNbNeighbours", r.chance(0.2) ? 0.0 : (double)r.range(1, 40));
  if (r.chance(0.5)) set("d.localSearchNbRows", r.chance(0.2) ? 0.0 : (double)r.range(1, 12));
  if (r.chance(0.5)) set("d.shiftNbRows", (double)r.range(1, 6));
  if (r.chance(0.5)) {
    static const double sm[] = {0, 1, 2, 3, 5, 10, 50, 120};
    set("d.shiftMaxNbCells", sm[r.below(8)]);
  }
  if (reordering) {
    set("d.reorderingNbRows", (double)r.range(1, 3));
    set("d.reorderingMaxNbCells", (double)r.range(2, 5));
  } else if (r.chance(0.2)) {
    set("d.reorderingMaxNbCells", (double)r.range(0, 1));
  }
}

ParamSpec genParams(Rng &r, int stage, bool reordering, bool owInBand, bool small = true) {
  ParamSpec p;
  p.effort = (int)r.range(1, 9);
  p.seed = r.chance(0.5) ? -1 : (int)r.range(0, 1000);
  if (stage == 0) genGlobalParams(r, p, small);
  if (stage == 1 || stage == 2) genLegalParams(r, p, owInBand);
  if (stage == 2) genDetailedParams(r, p, reordering);
  return p;
}

void genSchedule(Rng &r, Op &op) {
  double t = r.unit();
  if (t < 0.15) op.schedMode = SM_XY;
  else if (t < 0.3) op.schedMode = SM_YX;
  else if (t < 0.4) op.schedMode = SM_ALT;
  else if (t < 0.5) op.schedMode = SM_ALTY;
  else {
    op.schedMode = SM_PLAN;
    int n = (int)r.range(4, 200);
    double bias = r.unit();
    for (int i = 0; i < n; ++i) op.sched.push_back(r.chance(bias) ? 1 : 0);
  }
}

Op stageOp(Rng &r, int stage, bool cb, bool reordering, bool owInBand) {
  Op op;
  op.kind = stage == 0 ? OP_GLOBAL : stage == 1 ? OP_LEGALIZE : OP_DETAILED;
  op.params = genParams(r, stage, reordering, owInBand);
  op.cb = cb ? 1 : 0;
  if (stage == 0) genSchedule(r, op);
  if (!cb && r.chance(0.08)) {
    // the int-effort overloads of the public API
    op.params.byEffort = 1;
    op.params.ov.clear();
    op.params.seed = -1;
  }
  return op;
}

Op perturbOp(Rng &r, int H) {
  Op op;
  op.kind = OP_PERTURB;
  op.args = {(long long)r.below(7), (long long)r.below(1000000), (long long)std::max(1, H) * r.range(1, 4)};
  return op;
}

// client ops that change the circuit between stages (cell expansion, net
// weights, orientations): later stages must cope with whatever they leave
Op clientOp(Rng &r) {
  Op op;
  switch (r.below(4)) {
    case 0:
      op.kind = OP_EXPAND_DENSITY;
      op.fargs = {r.real(0.3, 0.95), r.chance(0.5) ? 0.0 : r.real(0.0, 1.0), r.chance(0.5) ? 1.0 : r.real(0.05, 1.0)};
      break;
    case 1:
      op.kind = OP_EXPAND_FACTOR;
      op.args = {(long long)r.below(1000000)};
      op.fargs = {r.real(1.0, 3.0), r.real(0.5, 1.0), r.chance(0.5) ? 0.0 : r.real(0.0, 1.0)};
      break;
    case 2:
      op.kind = OP_SET_WEIGHTS;
      op.args = {(long long)r.below(1000000)};
      break;
    default:
      op.kind = OP_SET_ORIENT;
      op.args = {(long long)r.below(1000000)};
      break;
  }
  return op;
}

// Rows thousands of row heights wide mean thousands of density bins: keep the
// number of global placement steps small there so that a run stays short.
void tame(Plan &p, const GenCfg &cfg) {
  bool big = cfg.wideRows || p.circuit.cells.size() > 60;
  for (auto &op : p.ops) {
    if (op.kind != OP_GLOBAL) continue;
    if (big || cfg.bigScale) op.params.byEffort = 0;  // the int overloads run the default 400 steps
    if (cfg.bigScale) {
      // the transportation solver of the rough legalizer is very slow when cell areas are
      // around 2^30 and the reoptimisation windows are large: keep windows small there
      // (performance is not a property; this only keeps simulated runs short)
      if (op.params.effort > 2) op.params.effort = 1 + (op.params.effort % 2);
      for (auto &kv : op.params.ov) {
        if (kv.first == "rl.squareReoptSize") kv.second = std::min(kv.second, 2.0);
        if (kv.first == "rl.squareReoptOverlap") kv.second = 1.0;
        if (kv.first == "rl.lineReoptSize" && kv.second > 4) { kv.second = 4; }
        if (kv.first == "rl.lineReoptOverlap") kv.second = std::min(kv.second, 1.0);
        if (kv.first == "rl.diagReoptSize" && kv.second > 3) { kv.second = 3; }
        if (kv.first == "rl.diagReoptOverlap") kv.second = std::min(kv.second, 1.0);
      }
    }
    if (cfg.large) {
      op.params.byEffort = 0;  // the int overloads ignore the step limit set below
      bool f = false;
      for (auto &kv : op.params.ov)
        if (kv.first == "g.maxNbSteps") {
          kv.second = std::min(kv.second, 12.0);
          f = true;
        }
      if (!f) op.params.ov.emplace_back("g.maxNbSteps", 12.0);
    }
    if (!cfg.wideRows) continue;
    bool found = false;
    for (auto &kv : op.params.ov)
      if (kv.first == "g.maxNbSteps") {
        kv.second = std::min(kv.second, 3.0);
        found = true;
      }
    if (!found) op.params.ov.emplace_back("g.maxNbSteps", 3.0);
    for (auto &kv : op.params.ov)
      if (kv.first == "g.nbInitialSteps") kv.second = std::min(kv.second, 1.0);
  }
}

// --------------------------------------------------------------- profiles --
Plan base(const std::string &profile, uint64_t seed) {
  Plan p;
  p.kind = "circuit";
  p.profile = profile;
  p.seed = seed;
  return p;
}

CircuitSpec smallOther(Rng &r) {
  GenCfg c;
  c.tier = 0;
  c.maxCells = (int)r.range(3, 12);
  c.multiRow = false;
  c.macros = false;
  c.turned = false;
  c.polarities = false;
  c.splitRows = false;
  c.obstructions = false;
  c.fixedCells = r.chance(0.5);
  c.util = 0.4;
  return genCircuit(r, c).spec;
}

// Utilisation > 100 % / impossible polarity: infeasible legalization as a fault
void makeInfeasible(Rng &r, CircuitSpec &s, int H) {
  int mode = (int)r.below(5);
  auto widen = [](CellSpec &k, long long f) {
    long long w = (long long)k.w * f;
    // stay inside the supported magnitude range (|v| <= 2^22, area < 2^31)
    while (w > (1LL << 22) || w * std::max(1, k.h) >= (1LL << 31)) w /= 2;
    k.w = (int)std::max<long long>(w, k.w);
  };
  if (mode == 0) {
    for (auto &k : s.cells)
      if (!k.fixed && !Snapshot::isTurned(k.orient)) widen(k, r.range(3, 12));
  } else if (mode == 1) {
    // a cell wider than every segment
    for (auto &k : s.cells)
      if (!k.fixed && !Snapshot::isTurned(k.orient)) {
        long long widest = 0;
        for (auto &rw : s.rows) widest = std::max<long long>(widest, rw.maxX - rw.minX);
        if ((widest + 1) * std::max(1, k.h) < (1LL << 31)) k.w = (int)(widest + 1);
        break;
      }
  } else if (mode == 3) {
    // a movable cell lower than a row (or of no height at all): neither
    // legalization stage can take it
    std::vector<int> mov;
    for (int i = 0; i < (int)s.cells.size(); ++i)
      if (!s.cells[i].fixed && !Snapshot::isTurned(s.cells[i].orient)) mov.push_back(i);
    if (!mov.empty()) {
      CellSpec &k = s.cells[mov[r.below(mov.size())]];
      // not much lower than a row: the density grid sizes its bins by the smallest positive
      // cell height, a cell thousands of times lower than the rows means tens of millions of bins
      k.h = (H >= 2 && r.chance(0.7)) ? (int)r.range(std::max(1, H / 3), H - 1) : 0;
    }
  } else if (mode == 4) {
    // every row completely covered by a fixed obstruction: no free space at all
    if (!s.rows.empty()) {
      long long x0 = s.rows[0].minX, x1 = s.rows[0].maxX, y0 = s.rows[0].minY, y1 = s.rows[0].maxY;
      for (auto &rw : s.rows) {
        x0 = std::min<long long>(x0, rw.minX);
        x1 = std::max<long long>(x1, rw.maxX);
        y0 = std::min<long long>(y0, rw.minY);
        y1 = std::max<long long>(y1, rw.maxY);
      }
      CellSpec k;
      k.fixed = 1;
      k.obs = 1;
      k.x = (int)(x0 - (r.chance(0.5) ? 0 : H));
      k.y = (int)(y0 - (r.chance(0.5) ? 0 : H));
      k.w = (int)(x1 - k.x + (r.chance(0.5) ? 0 : H));
      k.h = (int)(y1 - k.y + (r.chance(0.5) ? 0 : H));
      if ((long long)k.w * k.h < (1LL << 31)) s.cells.push_back(k);
    }
  } else {
    // polarity that no row admits
    bool hasNW = false, hasSE = false;
    for (auto &rw : s.rows) {
      if (rw.orient == O_N || rw.orient == O_FN) hasNW = true;
      if (rw.orient == O_S || rw.orient == O_FS) hasSE = true;
    }
    for (auto &k : s.cells)
      if (!k.fixed && !Snapshot::isTurned(k.orient)) {
        if (!hasNW) k.pol = P_NW;
        else if (!hasSE) k.pol = P_SE;
        else widen(k, 20);
        break;
      }
  }
  (void)H;
}

Plan genLegalization(const std::string &profile, uint64_t seed, int tier) {
  Rng r(seed);
  Plan p = base(profile, seed);
  Rng rc = r.fork("circuit"), ro = r.fork("ops");
  GenCfg cfg = swarm(rc, tier);
  if (rc.chance(0.15)) {
    static const double over[] = {1.0, 1.05, 1.3, 2.0};
    cfg.util = over[rc.below(4)];
  }
  Built b = genCircuit(rc, cfg);
  p.circuit = b.spec;
  if (ro.chance(0.08)) makeInfeasible(ro, p.circuit, b.H);
  bool inBand = ro.chance(0.5);
  int nOps = (int)ro.range(1, 3);
  if (ro.chance(0.2)) {
    Op g = stageOp(ro, 0, false, false, inBand);
    p.ops.push_back(g);
  }
  for (int i = 0; i < nOps; ++i) {
    if (i > 0 && ro.chance(0.6)) p.ops.push_back(perturbOp(ro, b.H));
    if (i > 0 && ro.chance(0.15)) {
      Op so;
      so.kind = OP_SET_ORIENT;
      so.args = {(long long)ro.below(100000)};
      p.ops.push_back(so);
    }
    p.ops.push_back(stageOp(ro, 1, ro.chance(0.4), false, inBand));
    if (ro.chance(0.1)) {
      Op c;
      c.kind = OP_COPY;
      p.ops.push_back(c);
    }
  }
  tame(p, cfg);
  return p;
}

Plan genDetailed(const std::string &profile, uint64_t seed, int tier) {
  Rng r(seed);
  Plan p = base(profile, seed);
  Rng rc = r.fork("circuit"), ro = r.fork("ops");
  GenCfg cfg = swarm(rc, tier);
  if (profile == "C04") {
    cfg.polarities = true;
    cfg.oddPol = rc.chance(0.5);
  }
  if (profile == "C05") cfg.nets = true;
  Built b = genCircuit(rc, cfg);
  p.circuit = b.spec;
  bool reord = ro.chance(0.35);
  bool inBand = ro.chance(0.5);
  if (ro.chance(0.15)) p.ops.push_back(stageOp(ro, 0, false, false, inBand));
  if (ro.chance(0.3)) p.ops.push_back(stageOp(ro, 1, ro.chance(0.3), false, inBand));
  p.ops.push_back(stageOp(ro, 2, ro.chance(0.75), reord, inBand));
  if (ro.chance(0.2)) {
    p.ops.push_back(perturbOp(ro, b.H));
    p.ops.push_back(stageOp(ro, 2, ro.chance(0.75), ro.chance(0.3), inBand));
  }
  tame(p, cfg);
  return p;
}

// A callback that legally changes cell widths during global placement (CB_RESIZE mode 1: movable
// cells, mode 2: every cell; see exec_circuit.cpp).  Drawn from its own stream.
void maybeRealResize(Rng &rr, Op &op, double prob, double movableOnly) {
  if (op.kind != OP_GLOBAL || op.params.byEffort || !rr.chance(prob)) return;
  int n = rr.chance(0.3) ? 2 : 1;
  for (int j = 0; j < n; ++j) {
    CbAction a;
    a.k = (int)rr.range(0, 10);
    a.kind = CB_RESIZE;
    long long mode = rr.chance(movableOnly) ? 1 : 2, amount = (long long)rr.below(3);
    a.arg = (long long)rr.below(2) | ((mode + 3 * amount) << 1);
    op.cb = 1;
    op.actions.push_back(a);
  }
}

Plan genGlobal(const std::string &profile, uint64_t seed, int tier) {
  Rng r(seed);
  Plan p = base(profile, seed);
  Rng rc = r.fork("circuit"), ro = r.fork("ops");
  GenCfg cfg = swarm(rc, tier);
  cfg.c06Domain = true;
  if (cfg.util > 0.9) cfg.util = 0.8;
  Built b = genCircuit(rc, cfg);
  p.circuit = b.spec;
  Op g = stageOp(ro, 0, ro.chance(0.85), false, true);
  p.ops.push_back(g);
  if (ro.chance(0.15)) {
    p.ops.push_back(perturbOp(ro, b.H));
    p.ops.push_back(stageOp(ro, 0, ro.chance(0.85), false, true));
  }
  Rng rr = r.fork("resize");
  for (auto &op : p.ops) maybeRealResize(rr, op, 0.15, 0.85);
  tame(p, cfg);
  return p;
}

void addFault(Rng &r, Op &op, int tier, int expectedCallbacks) {
  double t = r.unit();
  if (t < 0.45) {
    CbAction a;
    a.k = (int)r.range(0, std::max(0, expectedCallbacks));
    a.kind = (int)r.below(3);
    op.cb = 1;
    op.actions.push_back(a);
  } else if (t < 0.6) {
    // rejected parameter set
    static const char *keys[] = {"g.maxNbSteps", "l.orderingWidth", "d.nbPasses", "rl.binSize", "l.costModel", "pe.updateFactor"};
    static const double vals[] = {-1, 5.0, -2, 0.5, 2, 1.0};
    int i = (int)r.below(6);
    op.params.ov.emplace_back(keys[i], vals[i]);
  } else if (t < 0.7 && tier >= 1 && op.kind != OP_DETAILED) {
    op.allocFail = (long long)r.range(0, 400);
  } else if (t < 0.8) {
    op.clock = (int)r.range(1, 6);
  } else if (t < 0.9) {
    op.stdoutBad = 1;
  }
}

Plan genFrame(const std::string &profile, uint64_t seed, int tier) {
  Rng r(seed);
  Plan p = base(profile, seed);
  Rng rc = r.fork("circuit"), ro = r.fork("ops");
  GenCfg cfg = swarm(rc, tier);
  cfg.fixedCells = true;
  Built b = genCircuit(rc, cfg);
  p.circuit = b.spec;
  // make sure some fixed cells carry nets
  if (ro.chance(0.1)) makeInfeasible(ro, p.circuit, b.H);
  int nOps = (int)ro.range(1, 4);
  for (int i = 0; i < nOps; ++i) {
    int stage = (int)ro.below(3);
    Op op = stageOp(ro, stage, ro.chance(0.5), ro.chance(0.2), ro.chance(0.5));
    if (ro.chance(0.5)) addFault(ro, op, tier, stage == 0 ? 12 : stage == 1 ? 0 : 6);
    if (ro.chance(0.1)) {
      // an unrelated placement runs inside one of the callbacks
      if (p.other.cells.empty()) p.other = smallOther(ro);
      CbAction a;
      a.k = (int)ro.range(0, stage == 0 ? 6 : 2);
      a.kind = CB_NEST;
      a.arg = (long long)ro.below(18);
      op.cb = 1;
      op.actions.push_back(a);
    }
    p.ops.push_back(op);
    if (ro.chance(0.2)) p.ops.push_back(perturbOp(ro, b.H));
    if (ro.chance(0.12)) p.ops.push_back(clientOp(ro));
  }
  Rng rr = r.fork("resize");
  for (auto &op : p.ops)
    if (op.actions.empty()) maybeRealResize(rr, op, 0.3, 0.4);
  tame(p, cfg);
  return p;
}

Plan genCrash(const std::string &profile, uint64_t seed, int tier) {
  Rng r(seed);
  Plan p = base(profile, seed);
  Rng rc = r.fork("circuit"), ro = r.fork("ops");
  GenCfg cfg = swarm(rc, tier);
  cfg.bigScale = rc.chance(0.5);
  cfg.c06Domain = true;
  // degenerate shapes of the C07 quantifier
  int shape = (int)rc.below(9);
  if (shape == 0) cfg.maxLevels = 1;
  if (shape == 1) cfg.maxCells = 1;
  if (shape == 2) cfg.nets = false;
  if (shape == 3) cfg.maxDegree = 1;
  Built b = genCircuit(rc, cfg);
  p.circuit = b.spec;
  if (shape == 3)
    for (auto &n : p.circuit.nets) {
      n.cells.resize(1);
      n.xo.resize(1);
      n.yo.resize(1);
    }
  if (shape == 4 && !p.circuit.cells.empty())
    for (auto &n : p.circuit.nets)
      for (auto &c : n.cells) c = n.cells[0];
  if (shape == 5) {
    bool first = true;
    for (auto &k : p.circuit.cells) {
      if (k.fixed) continue;
      if (first) {
        first = false;
        continue;
      }
      k.fixed = 1;
    }
  }
  if (shape == 6 || shape == 8) makeInfeasible(ro, p.circuit, b.H);
  bool reord = ro.chance(0.3);
  int nOps = (int)ro.range(1, 3);
  for (int i = 0; i < nOps; ++i) {
    int stage = (int)ro.below(3);
    p.ops.push_back(stageOp(ro, stage, ro.chance(0.4), reord, ro.chance(0.5)));
    if (ro.chance(0.15)) p.ops.push_back(clientOp(ro));
  }
  if (ro.chance(0.5)) {
    // the canonical flow
    p.ops.clear();
    p.ops.push_back(stageOp(ro, 0, ro.chance(0.3), false, true));
    p.ops.push_back(stageOp(ro, 2, ro.chance(0.3), reord, ro.chance(0.5)));
  }
  tame(p, cfg);
  return p;
}

Plan genC08(const std::string &profile, uint64_t seed, int tier) {
  Rng r(seed);
  Plan p = base(profile, seed);
  p.kind = "c08";
  Rng rc = r.fork("circuit"), ro = r.fork("ops"), rv = r.fork("variants");
  GenCfg cfg = swarm(rc, tier);
  cfg.c06Domain = true;
  cfg.maxCells = tier ? (int)rc.range(4, 120) : (int)rc.range(3, 40);
  if (cfg.util > 0.9) cfg.util = 0.8;
  Built b = genCircuit(rc, cfg);
  p.circuit = b.spec;
  p.other = smallOther(rc);
  bool reord = ro.chance(0.2);
  Op g = stageOp(ro, 0, false, false, true);
  // noise > 0 so that the seed matters
  Op l = stageOp(ro, 1, false, false, true);
  Op d = stageOp(ro, 2, false, reord, true);
  int flow = (int)ro.below(4);
  if (flow == 0) p.ops = {g};
  else if (flow == 1) p.ops = {g, l};
  else p.ops = {g, d};
  int nv = tier ? (int)rv.range(5, 10) : (int)rv.range(3, 7);
  Rng rh = rv.fork("history");
  for (int i = 0; i < nv; ++i) {
    Variant v;
    double t = rv.unit();
    if (t < 0.45) v.mode = VM_FRESH;
    else if (t < 0.55) v.mode = VM_COPY;
    else if (t < 0.65) v.mode = VM_TWICE;
    else if (t < 0.73) v.mode = VM_AFTER_OTHER;
    else if (t < 0.83) v.mode = VM_NESTED;
    else if (t < 0.93) v.mode = VM_FREERUN;
    else v.mode = VM_PINNED;
    v.cb = rv.chance(0.4) ? 1 : 0;
    Op tmp;
    genSchedule(rv, tmp);
    v.schedMode = tmp.schedMode;
    v.sched = tmp.sched;
    if (i == 0) {
      v.mode = VM_FRESH;
      v.schedMode = SM_YX;
      v.sched.clear();
    }
    if (i == 1) {
      v.mode = VM_FRESH;
      v.schedMode = SM_ALTY;
      v.sched.clear();
    }
    if (i >= 2 && rh.chance(0.12)) v.mode = VM_HISTORY;
    if (v.mode == VM_FREERUN || v.mode == VM_PINNED) {
      v.sched.clear();
      int n = (int)rv.range(0, 12);
      for (int k = 0; k < n; ++k) v.sched.push_back((int)rv.below(16));
    }
    v.clock = rv.chance(0.3) ? (int)rv.range(1, 6) : 0;
    v.stdoutBad = rv.chance(0.1) ? 1 : 0;
    p.variants.push_back(v);
  }
  tame(p, cfg);
  return p;
}

Plan genProtocol(const std::string &profile, uint64_t seed, int tier) {
  Rng r(seed);
  Plan p = base(profile, seed);
  Rng rc = r.fork("circuit"), ro = r.fork("ops");
  GenCfg cfg = swarm(rc, tier);
  cfg.maxCells = tier ? (int)rc.range(2, 60) : (int)rc.range(2, 25);
  Built b = genCircuit(rc, cfg);
  p.circuit = b.spec;
  if (ro.chance(0.15)) makeInfeasible(ro, p.circuit, b.H);
  int nOps = (int)ro.range(1, 2);
  for (int i = 0; i < nOps; ++i) {
    int stage = (int)ro.below(3);
    Op op = stageOp(ro, stage, true, ro.chance(0.2), ro.chance(0.5));
    if (stage == 0) {
      // keep the enumeration affordable
      for (auto &kv : op.params.ov)
        if (kv.first == "g.maxNbSteps") kv.second = std::min(kv.second, tier ? 10.0 : 6.0);
    }
    op.enumThrow = 1;
    op.args = {(long long)ro.below(3)};
    // poke at every callback of the real run
    int pokes = stage == 0 ? 40 : 14;
    for (int k = 0; k < pokes; ++k) {
      CbAction a;
      a.k = k;
      a.kind = CB_POKE;
      op.actions.push_back(a);
    }
    if (ro.chance(0.25)) {
      static const char *keys[] = {"g.maxNbSteps", "l.orderingWidth", "d.nbPasses", "rl.binSize", "l.costModel"};
      static const double vals[] = {-1, 5.0, -2, 0.5, 2};
      int j = (int)ro.below(5);
      op.params.ov.emplace_back(keys[j], vals[j]);
    }
    if (tier >= 1 && ro.chance(0.2) && stage != 2) op.allocFail = (long long)ro.range(0, 300);
    if (ro.chance(0.1)) {
      CbAction a;
      a.k = (int)ro.range(0, 3);
      a.kind = CB_RESIZE;
      a.arg = (long long)ro.below(2);
      op.actions.push_back(a);
    }
    p.ops.push_back(op);
    if (ro.chance(0.3)) {
      Op c;
      c.kind = OP_CHECK;
      p.ops.push_back(c);
    }
  }
  tame(p, cfg);
  return p;
}

Plan genRelegalize(const std::string &profile, uint64_t seed, int tier) {
  Rng r(seed);
  Plan p = base(profile, seed);
  Rng rc = r.fork("circuit"), ro = r.fork("ops");
  GenCfg cfg = swarm(rc, tier);
  cfg.multiRow = false;
  cfg.macros = false;
  cfg.bigScale = rc.chance(0.4);
  cfg.maxMagPow = 19;  // the property is stated for |v| < 2^20 (perturbations included)
  if (cfg.bigScale) {
    cfg.splitRows = rc.chance(0.8);
    cfg.obstructions = rc.chance(0.8);
  }
  // turned cells are allowed as long as their placed height is one row
  Built b = genCircuit(rc, cfg);
  p.circuit = b.spec;
  // all movable cells exactly one row high (placed): enforce for turned ones
  bool all = ro.chance(0.5);  // "all parameter sets" vs. the band the comment of check() names
  int flow = (int)ro.below(4);
  if (cfg.initMode == 3 || flow == 0) {
    p.ops.push_back(stageOp(ro, 1, ro.chance(0.2), false, !all));
    p.ops.push_back(stageOp(ro, 1, ro.chance(0.2), false, !all));
  } else if (flow == 1) {
    Op l1 = stageOp(ro, 1, false, false, !all);
    p.ops.push_back(l1);
    Op l2 = l1;  // legalizing twice with the same parameters
    p.ops.push_back(l2);
    p.ops.push_back(stageOp(ro, 1, false, false, !all));
  } else if (flow == 2) {
    p.ops.push_back(stageOp(ro, 2, false, ro.chance(0.2), !all));
    p.ops.push_back(stageOp(ro, 1, ro.chance(0.2), false, !all));
  } else {
    p.ops.push_back(stageOp(ro, 0, false, false, true));
    p.ops.push_back(stageOp(ro, 1, false, false, !all));
    p.ops.push_back(stageOp(ro, 1, false, false, !all));
  }
  tame(p, cfg);
  return p;
}

Plan genBadCalls(const std::string &profile, uint64_t seed, int tier) {
  Rng r(seed);
  Plan p = base(profile, seed);
  Rng rc = r.fork("circuit"), ro = r.fork("ops");
  GenCfg cfg = swarm(rc, tier);
  cfg.maxCells = (int)rc.range(1, 20);
  Built b = genCircuit(rc, cfg);
  p.circuit = b.spec;
  auto bad = [&](Rng &q) {
    Op op;
    op.kind = OP_BADCALL;
    int kind = (int)q.below(10);
    long long variant = (long long)q.below(1000000);
    if (kind == 0) variant = q.chance(0.7) ? q.range(-16, 32) : (long long)(int)(q.next() & 0xffffffffu);
    if (kind == 1) variant = (q.chance(0.7) ? q.range(-16, 32) : (long long)(int)(q.next() & 0x7fffffffu) / 4) * 3 + (long long)q.below(3);
    op.args = {kind, variant};
    if (kind == 2) {
      // a valid, non-default parameter context around the out-of-range field(s)
      ParamSpec ctx = genParams(q, 0, false, true);
      ParamSpec c2 = genParams(q, 2, q.chance(0.3), true);
      for (auto &kv : c2.ov) ctx.ov.push_back(kv);
      for (auto &kv : ctx.ov)
        if (kv.first == "g.maxNbSteps") kv.second = std::min(kv.second, 3.0);
      op.params = ctx;
    }
    return op;
  };
  int n = (int)ro.range(2, 8);
  for (int i = 0; i < n; ++i) {
    double t = ro.unit();
    if (t < 0.6) {
      p.ops.push_back(bad(ro));
    } else if (t < 0.85) {
      int stage = (int)ro.below(3);
      Op op = stageOp(ro, stage, true, false, true);
      if (stage == 0)
        for (auto &kv : op.params.ov)
          if (kv.first == "g.maxNbSteps") kv.second = std::min(kv.second, 5.0);
      int na = (int)ro.range(1, 3);
      for (int k = 0; k < na; ++k) {
        CbAction a;
        a.k = (int)ro.range(0, stage == 0 ? 8 : stage == 1 ? 0 : 4);
        a.kind = CB_BADCALL;
        int kind = (int)ro.below(10);
        if (kind == 1 || kind == 2) kind = 3;  // no nested placement calls on the busy circuit
        long long variant = (long long)ro.below(10000);
        if (kind == 0) variant = ro.range(-16, 32);
        a.arg = kind + 100 * variant;
        op.actions.push_back(a);
      }
      p.ops.push_back(op);
    } else {
      Op c;
      c.kind = OP_CHECK;
      p.ops.push_back(c);
    }
  }
  {
    // the client spoils the parameter object of a call from inside one of its callbacks
    Rng rp = r.fork("poison");
    for (auto &op : p.ops) {
      if ((op.kind != OP_GLOBAL && op.kind != OP_LEGALIZE && op.kind != OP_DETAILED) || op.enumThrow || op.params.byEffort ||
          !rp.chance(0.35))
        continue;
      op.actions.clear();  // instead of the malformed calls drawn above
      CbAction a;
      a.k = (int)rp.range(0, op.kind == OP_GLOBAL ? 6 : 2);
      a.kind = CB_BADPARAMS;
      a.arg = (long long)rp.below(6);
      op.cb = 1;
      op.actions.push_back(a);
    }
  }
  tame(p, cfg);
  return p;
}

Plan genHpwl(const std::string &profile, uint64_t seed, int tier) {
  Rng r(seed);
  Plan p = base(profile, seed);
  Rng rc = r.fork("circuit"), ro = r.fork("ops");
  GenCfg cfg = swarm(rc, tier);
  cfg.nets = true;
  cfg.turned = true;
  cfg.offsetsOutside = rc.chance(0.5);
  cfg.maxDegree = 12;
  Built b = genCircuit(rc, cfg);
  p.circuit = b.spec;
  // every orientation on every kind of cell (the HPWL oracle does not need the C01 domain)
  for (auto &k : p.circuit.cells)
    if (rc.chance(0.5)) k.orient = (int)rc.below(8);
  int stage = 1 + (int)ro.below(2);
  p.ops.push_back(stageOp(ro, stage, true, ro.chance(0.2), true));
  if (ro.chance(0.5)) p.ops.push_back(stageOp(ro, 0, true, false, true));
  tame(p, cfg);
  return p;
}

}  // namespace

// Small worlds are generated in gen_small.cpp
Plan genRowLeg(const std::string &profile, uint64_t seed, int tier);
Plan genDensity(const std::string &profile, uint64_t seed, int tier);
Plan genIncr(const std::string &profile, uint64_t seed, int tier);
Plan genDPlacer(const std::string &profile, uint64_t seed, int tier);

Plan generatePlan(const std::string &profile, uint64_t seed, int tier) {
  if (profile == "C01") return genLegalization(profile, seed, tier);
  if (profile == "C02" || profile == "C04" || profile == "C05") return genDetailed(profile, seed, tier);
  if (profile == "C03") return genFrame(profile, seed, tier);
  if (profile == "C06") return genGlobal(profile, seed, tier);
  if (profile == "C07") return genCrash(profile, seed, tier);
  if (profile == "C08") return genC08(profile, seed, tier);
  if (profile == "C09") return genHpwl(profile, seed, tier);
  if (profile == "C10") return genProtocol(profile, seed, tier);
  if (profile == "C11") return genRelegalize(profile, seed, tier);
  if (profile == "C19") return genBadCalls(profile, seed, tier);
  if (profile == "rowleg") return genRowLeg(profile, seed, tier);
  if (profile == "density") return genDensity(profile, seed, tier);
  if (profile == "incr") return genIncr(profile, seed, tier);
  if (profile == "dplacer") return genDPlacer(profile, seed, tier);
  Plan p;
  p.kind = "circuit";
  p.profile = profile;
  p.seed = seed;
  return p;
}

std::vector<ProfileMix> profilesFor(const std::string &prop) {
  if (prop == "C01") return {{"C01", 0.8}, {"C07", 0.1}, {"C11", 0.1}};
  if (prop == "C02") return {{"C02", 0.55}, {"dplacer", 0.35}, {"C07", 0.1}};
  if (prop == "C03") return {{"C03", 0.8}, {"C10", 0.1}, {"C07", 0.1}};
  if (prop == "C04") return {{"C04", 0.6}, {"dplacer", 0.2}, {"C01", 0.2}};
  if (prop == "C05") return {{"C05", 0.6}, {"dplacer", 0.4}};
  if (prop == "C06") return {{"C06", 0.9}, {"C07", 0.1}};
  if (prop == "C07") return {{"C07", 0.6}, {"C01", 0.1}, {"C02", 0.1}, {"C06", 0.1}, {"dplacer", 0.1}};
  if (prop == "C08") return {{"C08", 1.0}};
  if (prop == "C09") return {{"incr", 0.45}, {"C09", 0.35}, {"dplacer", 0.2}};
  if (prop == "C10") return {{"C10", 0.9}, {"C03", 0.1}};
  if (prop == "C11") return {{"C11", 1.0}};
  if (prop == "C12") return {{"rowleg", 1.0}};
  if (prop == "C16") return {{"density", 0.9}, {"C06", 0.1}};
  if (prop == "C19") return {{"C19", 1.0}};
  return {};
}

}  // namespace sim
