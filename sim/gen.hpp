// generate(seed, profile) -> plan.  The only consumer of the PRNG.
#pragma once
#include <cstdint>
#include <string>
#include <vector>

#include "plan.hpp"

namespace sim {

// tier: 0 quick, 1 thorough (larger instances, more fault kinds)
Plan generatePlan(const std::string &profile, uint64_t seed, int tier);

// The profiles a property's check draws from, with weights (sum need not be 1).
struct ProfileMix {
  std::string profile;
  double weight;
};
std::vector<ProfileMix> profilesFor(const std::string &prop);

}  // namespace sim
