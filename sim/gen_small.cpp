// Generators of the small worlds (see exec_small.cpp).
#include <algorithm>

#include "gen.hpp"
#include "util.hpp"
#include "world.hpp"

namespace sim {

// ------------------------------------------------------------------ C12 ----
Plan genRowLeg(const std::string &profile, uint64_t seed, int tier) {
  Rng r(seed);
  Plan p;
  p.kind = "rowleg";
  p.profile = profile;
  p.seed = seed;
  double t = r.unit();
  long long b, len;
  int maxW, maxCells;
  long long scale = 1;
  if (t < 0.6) {  // tiny: where hand analysis is possible
    len = r.range(1, 12);
    maxW = 3;
    maxCells = 6;
    b = r.range(-5, 5);
  } else if (t < 0.85) {
    len = r.range(5, 120);
    maxW = (int)r.range(1, 12);
    maxCells = tier ? 40 : 20;
    b = r.range(-200, 200);
  } else {  // magnitudes up to 2^22
    scale = 1LL << r.range(8, 16);
    len = r.range(5, 60);
    maxW = (int)r.range(1, 6);
    maxCells = 25;
    b = r.range(-30, 30);
  }
  long long e = b + len;
  p.head = {b * scale, e * scale};
  int nOps = (int)r.range(1, 3 * maxCells);
  int mode = (int)r.below(4);  // bias of targets
  for (int i = 0; i < nOps; ++i) {
    GOp g;
    double u = r.unit();
    if (u < 0.55) g.name = "push";
    else if (u < 0.9) g.name = "cost";
    else if (u < 0.97) g.name = "place";
    else g.name = "clear";
    long long w = r.range(1, maxW);
    long long tg;
    switch (mode) {
      case 0: tg = r.range(b - len, e + len); break;           // window around the segment
      case 1: tg = r.range(e - 2, e + len); break;             // pressed against the right end
      case 2: tg = r.range(b - len, b + 2); break;             // pressed against the left end
      default: tg = r.chance(0.2) ? r.range(-100000, 100000) : r.range(b, e); break;
    }
    g.a = {w * scale, tg * scale};
    p.gops.push_back(g);
  }
  return p;
}

// shared small circuit generator for the internal-class worlds
namespace {
CircuitSpec gridCircuit(Rng &r, int tier, bool obstructions, bool singleRowOnly, bool polar, int &Hout) {
  CircuitSpec s;
  static const int hs[] = {1, 2, 4, 5, 8, 10};
  int H = hs[r.below(6)];
  Hout = H;
  int nL = (int)r.range(1, tier ? 12 : 7);
  long long W = (long long)H * r.range(4, 30);
  long long ox = r.chance(0.5) ? 0 : r.range(-20, 20) * H, oy = r.chance(0.5) ? 0 : r.range(-20, 20) * H;
  int pattern = (int)r.below(3);
  for (int l = 0; l < nL; ++l) {
    int orient = pattern == 0 ? ((l % 2) ? O_FS : O_N) : pattern == 1 ? O_N : ((l % 2) ? O_N : O_FS);
    bool split = r.chance(0.25) && W >= 10LL * H;
    if (split) {
      long long cut = ox + r.range(4 * H, W - 5 * H);
      long long hole = r.range(0, H);
      RowSpec a{(int)ox, (int)cut, (int)(oy + l * H), (int)(oy + (l + 1) * H), orient};
      RowSpec b{(int)std::min(cut + hole, ox + W - 4 * H), (int)(ox + W), (int)(oy + l * H), (int)(oy + (l + 1) * H), orient};
      s.rows.push_back(a);
      s.rows.push_back(b);
    } else {
      s.rows.push_back(RowSpec{(int)ox, (int)(ox + W), (int)(oy + l * H), (int)(oy + (l + 1) * H), orient});
    }
  }
  if (obstructions) {
    int nF = (int)r.range(0, 4);
    for (int i = 0; i < nF; ++i) {
      CellSpec k;
      k.fixed = 1;
      k.obs = r.chance(0.8) ? 1 : 0;
      k.w = (int)r.range(0, std::max<long long>(1, W / 4));
      k.h = (int)r.range(0, 3 * H);
      k.x = (int)r.range(ox - H, ox + W);
      k.y = (int)r.range(oy - H, oy + (long long)nL * H);
      s.cells.push_back(k);
    }
  }
  double util = r.real(0.1, 0.9);
  long long target = (long long)(util * (double)(W * nL));
  long long area = 0;
  int maxCells = tier ? (int)r.range(2, 120) : (int)r.range(2, 40);
  int cnt = 0;
  while (cnt < maxCells && area < target) {
    CellSpec k;
    k.fixed = 0;
    int rowsHigh = (!singleRowOnly && nL >= 2 && r.chance(0.12)) ? (int)r.range(2, std::min(3, nL)) : 1;
    k.w = (int)r.range(1, std::max(2, 2 * H));
    k.h = rowsHigh * H;
    if (polar && r.chance(0.4)) {
      if (rowsHigh % 2) k.pol = r.chance(0.5) ? P_SAME : P_OPPOSITE;
      else k.pol = r.chance(0.5) ? P_NW : P_SE;
      if (r.chance(0.15)) k.pol = (int)r.range(1, 4);
    }
    static const int un[] = {O_N, O_S, O_FN, O_FS};
    k.orient = un[r.below(4)];
    k.x = (int)r.range(ox, ox + W);
    k.y = (int)r.range(oy, oy + (long long)nL * H);
    s.cells.push_back(k);
    area += (long long)k.w * rowsHigh;
    ++cnt;
  }
  int n = (int)s.cells.size();
  int nNets = (int)r.range(0, std::max(1, (int)(n * r.real(0.5, 1.5))));
  for (int i = 0; i < nNets && n > 0; ++i) {
    NetSpec net;
    int deg = r.chance(0.1) ? 1 : (int)r.range(2, r.chance(0.2) ? 10 : 4);
    for (int q = 0; q < deg; ++q) {
      int c = (int)r.below(n);
      if (q > 0 && r.chance(0.05)) c = net.cells[0];
      net.cells.push_back(c);
      bool outside = r.chance(0.1);
      net.xo.push_back((int)(outside ? r.range(-3 * H, 3 * H + s.cells[c].w) : r.range(0, std::max(0, s.cells[c].w))));
      net.yo.push_back((int)(outside ? r.range(-3 * H, 3 * H + s.cells[c].h) : r.range(0, std::max(0, s.cells[c].h))));
    }
    s.nets.push_back(net);
  }
  if (n > 0 && r.chance(0.15)) {
    // a few nets with dozens of pins
    int nHuge = (int)r.range(1, 2);
    for (int i = 0; i < nHuge; ++i) {
      NetSpec net;
      int deg = (int)r.range(20, 90);
      for (int q = 0; q < deg; ++q) {
        int c = (int)r.below(n);
        net.cells.push_back(c);
        net.xo.push_back((int)r.range(0, std::max(0, s.cells[c].w)));
        net.yo.push_back((int)r.range(0, std::max(0, s.cells[c].h)));
      }
      s.nets.push_back(net);
    }
  }
  return s;
}
}  // namespace

// ------------------------------------------------------------------ C16 ----
Plan genDensity(const std::string &profile, uint64_t seed, int tier) {
  Rng r(seed);
  Plan p;
  p.kind = "density";
  p.profile = profile;
  p.seed = seed;
  Rng rc = r.fork("circuit"), ro = r.fork("ops");
  int H;
  p.circuit = gridCircuit(rc, tier, rc.chance(0.6), rc.chance(0.6), false, H);
  if (rc.chance(0.2))
    for (auto &k : p.circuit.cells)
      if (!k.fixed && rc.chance(0.1)) k.w = 0;  // zero-area movable cells belong to no bin
  if (rc.chance(0.25)) {
    // fine database units: cell areas up to 2^30, so that the demand of a (coarse) bin exceeds 2^31
    long long M = 1, maxArea = 1;
    for (auto &rw : p.circuit.rows) M = std::max<long long>({M, std::llabs((long long)rw.minX), std::llabs((long long)rw.maxX), std::llabs((long long)rw.minY), std::llabs((long long)rw.maxY)});
    for (auto &k : p.circuit.cells) {
      M = std::max<long long>({M, std::llabs((long long)k.x), std::llabs((long long)k.y), (long long)k.w, (long long)k.h});
      maxArea = std::max<long long>(maxArea, (long long)std::max(1, k.w) * std::max(1, k.h));
    }
    int k = 0;
    while (k < 20 && (M << (k + 1)) <= (1LL << 21) && (maxArea << (2 * (k + 1))) < (1LL << 30)) ++k;
    long long u = 1LL << k;
    for (auto &rw : p.circuit.rows) {
      rw.minX *= u;
      rw.maxX *= u;
      rw.minY *= u;
      rw.maxY *= u;
    }
    for (auto &c : p.circuit.cells) {
      c.x *= u;
      c.y *= u;
      c.w *= u;
      c.h *= u;
    }
    for (auto &net : p.circuit.nets)
      for (size_t q = 0; q < net.cells.size(); ++q) {
        net.xo[q] *= u;
        net.yo[q] *= u;
      }
  }
  // rough-legalization parameter set (must pass check(); the executor verifies)
  Op holder;
  holder.kind = OP_CHECK;
  ParamSpec &ps = holder.params;
  ps.effort = (int)ro.range(1, 9);
  auto set = [&](const char *k, double v) { ps.ov.emplace_back(k, v); };
  int costModel = ro.chance(0.4) ? 0 : (int)ro.below(6);
  set("rl.costModel", costModel);
  set("rl.nbSteps", (double)ro.range(0, 2));
  set("rl.binSize", ro.chance(0.5) ? (double)ro.range(1, 12) : ro.real(1.0, 25.0));
  static const double margins[] = {0.0, 0.0, 0.5, 0.9, 1.0, 1.5};
  set("rl.sideMargin", margins[ro.below(6)]);
  bool uni = ro.chance(0.6);
  set("rl.unidimensionalTransport", uni ? 1 : 0);
  int ls = (int)ro.range(1, 6), ds = (int)ro.range(1, 5), sq = (int)ro.range(1, 4);
  if (!(uni && costModel == 0) && ls < 2 && ds < 2 && sq < 2) ls = 2;
  set("rl.lineReoptSize", ls);
  set("rl.lineReoptOverlap", ls > 1 ? (double)ro.range(1, ls - 1) : 1.0);
  set("rl.diagReoptSize", ds);
  set("rl.diagReoptOverlap", ds > 1 ? (double)ro.range(1, ds - 1) : 1.0);
  set("rl.squareReoptSize", sq);
  set("rl.squareReoptOverlap", sq > 1 ? (double)ro.range(1, sq - 1) : 1.0);
  set("rl.quadraticPenalty", ro.chance(0.5) ? 0.001 : ro.real(0.0, 1.0));
  static const double cl[] = {0.0, 1.0, 100.0, 1e6};
  set("rl.coarseningLimit", cl[ro.below(4)]);
  p.ops.push_back(holder);
  if (ro.chance(0.3)) {
    // region mode: the grid is built directly from disjoint regions of any height
    p.head = {1, ro.chance(0.5) ? ro.range(1, 6) : ro.range(1, 40)};
    p.circuit.rows.clear();
    int nReg = (int)ro.range(1, 10);
    long long y = ro.range(-30, 30);
    for (int i = 0; i < nReg; ++i) {
      long long h = ro.range(1, 12);
      // one to three disjoint pieces on this band
      long long x = ro.range(-40, 40);
      int pieces = (int)ro.range(1, 3);
      for (int k = 0; k < pieces; ++k) {
        long long w = ro.range(1, 60);
        p.circuit.rows.push_back(RowSpec{(int)x, (int)(x + w), (int)y, (int)(y + h), O_N});
        x += w + ro.range(0, 15);
      }
      y += h + (ro.chance(0.6) ? 0 : ro.range(1, 8));
    }
    for (auto &k : p.circuit.cells) {
      k.w = (int)ro.range(0, 6);
      k.h = (int)ro.range(0, 6);
    }
  }
  static const char *names[] = {"refineX", "refineY", "coarsenX", "coarsenY", "refine", "improve", "run", "coarsenFully", "refineFully", "targets", "demand"};
  static const double w[] = {3, 3, 2, 2, 3, 3, 1.5, 0.7, 0.7, 2, 0.7};
  double tot = 0;
  for (double x : w) tot += x;
  int nOps = (int)ro.range(1, tier ? 30 : 16);
  for (int i = 0; i < nOps; ++i) {
    double u = ro.unit() * tot;
    int k = 0;
    while (k < 10 && u > w[k]) {
      u -= w[k];
      ++k;
    }
    GOp g;
    g.name = names[k];
    if (g.name == "targets") g.a = {(long long)ro.below(4), (long long)ro.below(1000000)};
    if (g.name == "demand") g.a = {(long long)ro.below(1000000)};
    p.gops.push_back(g);
  }
  return p;
}

// ---------------------------------------------------------------- C09 b ----
Plan genIncr(const std::string &profile, uint64_t seed, int tier) {
  Rng r(seed);
  Plan p;
  p.kind = "incr";
  p.profile = profile;
  p.seed = seed;
  Rng rc = r.fork("circuit"), ro = r.fork("ops");
  int H;
  p.circuit = gridCircuit(rc, tier, rc.chance(0.5), false, false, H);
  // any orientation on any cell: the model must use the oriented pin offsets
  for (auto &k : p.circuit.cells)
    if (rc.chance(0.6)) k.orient = (int)rc.below(8);
  // some empty-ish / single pin nets exist already; add nets on fixed cells only
  p.head = {(long long)ro.below(2)};
  int n = (int)p.circuit.cells.size();
  if (ro.chance(0.5) && n > 0) {
    GOp g;
    g.name = "subset";
    int k = (int)ro.range(1, n);
    for (int i = 0; i < k; ++i) g.a.push_back((long long)ro.below(n));
    p.gops.push_back(g);
  }
  int nOps = (int)ro.range(1, tier ? 80 : 30);
  long long big = ro.chance(0.15) ? (1LL << 22) : 0;
  for (int i = 0; i < nOps; ++i) {
    GOp g;
    g.name = "move";
    long long np;
    double u = ro.unit();
    if (u < 0.6) np = ro.range(-5 * H, 40 * H);
    else if (u < 0.8 && n > 0) {
      const CellSpec &o = p.circuit.cells[ro.below(n)];
      np = (ro.chance(0.5) ? o.x : o.y) + ro.range(-1, 1);  // coincide with other pins
    } else if (big) np = ro.chance(0.5) ? big : -big;
    else np = ro.range(-100000, 100000);
    g.a = {(long long)ro.below(1000), np};
    p.gops.push_back(g);
  }
  return p;
}

// --------------------------------------------------------------- dplacer ----
Plan genDPlacer(const std::string &profile, uint64_t seed, int tier) {
  Rng r(seed);
  Plan p;
  p.kind = "dplacer";
  p.profile = profile;
  p.seed = seed;
  Rng rc = r.fork("circuit"), ro = r.fork("ops");
  int H;
  p.circuit = gridCircuit(rc, tier, rc.chance(0.5), rc.chance(0.5), rc.chance(0.5), H);
  Op holder;
  holder.kind = OP_CHECK;
  holder.params.effort = (int)ro.range(1, 9);
  p.ops.push_back(holder);
  int nOps = (int)ro.range(1, tier ? 12 : 7);
  for (int i = 0; i < nOps; ++i) {
    GOp g;
    double u = ro.unit();
    if (u < 0.3) {
      g.name = "swaps";
      g.a = {ro.chance(0.2) ? 0 : ro.range(1, 12), ro.chance(0.2) ? 0 : ro.range(1, 40)};
    } else if (u < 0.55) {
      g.name = "inserts";
      g.a = {ro.chance(0.2) ? 0 : ro.range(1, 12), ro.chance(0.2) ? 0 : ro.range(1, 40)};
    } else if (u < 0.8) {
      g.name = "shifts";
      g.a = {ro.range(1, 6), ro.chance(0.3) ? ro.range(2, 5) : ro.range(5, 120)};
    } else {
      g.name = "reorder";
      g.a = {ro.range(1, 3), ro.range(2, 5)};
    }
    p.gops.push_back(g);
  }
  // histories of single moves on the row data structure (feasible swaps and
  // insertions whatever their gain, and the placer's own try* moves)
  if (ro.chance(0.5)) {
    int nMoves = (int)ro.range(1, tier ? 60 : 25);
    std::vector<GOp> moves;
    for (int i = 0; i < nMoves; ++i) {
      GOp g;
      static const char *names[] = {"fswap", "finsert", "tswap", "tinsert"};
      g.name = names[ro.below(4)];
      g.a = {(long long)ro.below(1000), (long long)ro.below(1000), (long long)ro.below(1000)};
      moves.push_back(g);
    }
    // interleave: moves first, passes after, or mixed
    if (ro.chance(0.5)) p.gops.insert(p.gops.begin(), moves.begin(), moves.end());
    else
      for (auto &m : moves) p.gops.insert(p.gops.begin() + ro.below(p.gops.size() + 1), m);
  }
  return p;
}

}  // namespace sim
