// simplace: deterministic simulation of Coloquinte placement runs.
//
//   simplace gen <profile> <seed> [tier]          print the generated plan
//   simplace run <plan-file> [--trace]            execute a plan in this process
//   simplace replay <plan-file> [--expect P:clause] execute in a child, twice; exit 1 if a verdict appears
//   simplace batch ...                            see batch.cpp (used by ./check)
#include <cstdio>
#include <cstdlib>
#include <cstring>
#include <iostream>
#include <string>

#include "batch.hpp"
#include "exec.hpp"
#include "gen.hpp"
#include "plan.hpp"

// Sanitizer defaults.  Distinct exit codes let the worker pool classify a
// death; leak detection is off (LSan floods otherwise and is not a property).
extern "C" __attribute__((used, visibility("default"))) const char *__asan_default_options() {
  return "exitcode=77:detect_leaks=0:abort_on_error=0:allocator_may_return_null=1:handle_abort=1:detect_stack_use_after_return=0";
}
extern "C" __attribute__((used, visibility("default"))) const char *__ubsan_default_options() {
  return "print_stacktrace=1:halt_on_error=1:exitcode=78";
}
extern "C" __attribute__((used, visibility("default"))) const char *__tsan_default_options() {
  return "halt_on_error=1:exitcode=66:report_signal_unsafe=0:second_deadlock_stack=1";
}

using namespace sim;

static int usage() {
  fprintf(stderr,
          "usage: simplace gen <profile> <seed> [tier]\n"
          "       simplace run <plan> [--trace]\n"
          "       simplace replay <plan> [--expect PROP[:clause]]\n"
          "       simplace batch --prop P --tier quick|thorough --runs N --seed S --workers W --json out.json [--known P:clause]...\n");
  return 2;
}

int main(int argc, char **argv) {
  if (argc < 2) return usage();
  std::string cmd = argv[1];
  if (cmd == "gen" && argc >= 4) {
    int tier = argc >= 5 ? atoi(argv[4]) : 0;
    Plan p = generatePlan(argv[2], strtoull(argv[3], nullptr, 10), tier);
    fputs(planToText(p).c_str(), stdout);
    return 0;
  }
  if (cmd == "run" && argc >= 3) {
    Plan p;
    std::string err;
    if (!planLoad(argv[2], p, err)) {
      fprintf(stderr, "cannot load plan: %s\n", err.c_str());
      return 2;
    }
    ExecOptions opt;
    opt.keepTrace = true;
    for (int i = 3; i < argc; ++i)
      if (!strcmp(argv[i], "--trace")) opt.echoTrace = true;
    fprintf(stderr, "plan: %s\n", planSummary(p).c_str());
    ExecResult r = executePlan(p, opt);
    if (r.invalidPlan) fprintf(stderr, "invalid plan: %s\n", r.invalidWhy.c_str());
    for (auto &v : r.verdicts) printf("VERDICT %s %s op=%d: %s\n", v.prop.c_str(), v.clause.c_str(), v.op, v.detail.c_str());
    printf("TRACE-HASH %s\n", hex64(r.traceHash).c_str());
    for (auto &kv : r.stats.c) fprintf(stderr, "  stat %s=%lld\n", kv.first.c_str(), kv.second);
    return r.verdicts.empty() ? 0 : 1;
  }
  if (cmd == "replay" && argc >= 3) return replayMain(argc - 2, argv + 2);
  if (cmd == "batch") return batchMain(argc - 2, argv + 2);
  if (cmd == "genrun") return genRunMain(argc - 2, argv + 2);
  return usage();
}
