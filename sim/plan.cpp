#include "plan.hpp"

#include <cstdio>
#include <cstdlib>
#include <fstream>
#include <sstream>

#include "util.hpp"

namespace sim {

static const char *kOpNames[] = {"global",        "legalize",      "detailed",
                                 "perturb",       "expand_density", "expand_factor",
                                 "set_weights",   "badcall",       "copy",
                                 "check",         "set_orient"};
static const char *kCbNames[] = {"throw_rt", "throw_ba", "throw_int", "poke",
                                 "badcall",  "resize",   "nest",      "badparams"};
static const char *kVmNames[] = {"fresh",  "copy",    "twice", "after_other",
                                 "nested", "freerun", "pinned", "history"};

std::string opKindName(int k) {
  return (k >= 0 && k < OP_NKINDS) ? kOpNames[k] : "op?";
}
std::string cbKindName(int k) {
  return (k >= 0 && k < CB_NKINDS) ? kCbNames[k] : "cb?";
}
std::string variantModeName(int k) {
  return (k >= 0 && k < VM_NKINDS) ? kVmNames[k] : "vm?";
}

static std::string fmtD(double d) {
  char b[40];
  snprintf(b, sizeof b, "%.17g", d);
  return b;
}
static std::string fmtF(float f) {
  char b[40];
  snprintf(b, sizeof b, "%.9g", (double)f);
  return b;
}

static void writeCircuit(std::ostringstream &os, const char *tag,
                         const CircuitSpec &c) {
  os << tag << " rows " << c.rows.size() << " cells " << c.cells.size()
     << " nets " << c.nets.size() << "\n";
  for (auto &r : c.rows)
    os << "  row " << r.minX << " " << r.maxX << " " << r.minY << " " << r.maxY
       << " " << r.orient << "\n";
  for (auto &k : c.cells)
    os << "  cell " << k.w << " " << k.h << " " << k.fixed << " " << k.obs
       << " " << k.pol << " " << k.x << " " << k.y << " " << k.orient << "\n";
  for (auto &n : c.nets) {
    os << "  net " << fmtF(n.weight) << " " << n.cells.size();
    for (size_t i = 0; i < n.cells.size(); ++i)
      os << " " << n.cells[i] << " " << n.xo[i] << " " << n.yo[i];
    os << "\n";
  }
}

static void writeParams(std::ostringstream &os, const ParamSpec &p) {
  os << " params " << p.effort << " " << p.seed << " " << p.byEffort << " "
     << p.ov.size();
  for (auto &kv : p.ov) os << " " << kv.first << " " << fmtD(kv.second);
}

static void writeInts(std::ostringstream &os, const char *tag,
                      const std::vector<int> &v) {
  os << " " << tag << " " << v.size();
  for (int x : v) os << " " << x;
}

std::string planToText(const Plan &p) {
  std::ostringstream os;
  os << "plan v1\n";
  os << "kind " << p.kind << "\n";
  os << "profile " << (p.profile.empty() ? "-" : p.profile) << "\n";
  os << "seed " << p.seed << "\n";
  os << "head " << p.head.size();
  for (auto v : p.head) os << " " << v;
  os << "\n";
  os << "fhead " << p.fhead.size();
  for (auto v : p.fhead) os << " " << fmtD(v);
  os << "\n";
  writeCircuit(os, "circuit", p.circuit);
  writeCircuit(os, "other", p.other);
  os << "ops " << p.ops.size() << "\n";
  for (auto &o : p.ops) {
    os << "  op " << opKindName(o.kind);
    writeParams(os, o.params);
    os << " cb " << o.cb << " enum " << o.enumThrow << " actions "
       << o.actions.size();
    for (auto &a : o.actions)
      os << " " << a.k << " " << cbKindName(a.kind) << " " << a.arg;
    os << " schedmode " << o.schedMode;
    writeInts(os, "sched", o.sched);
    os << " clock " << o.clock << " stdoutbad " << o.stdoutBad << " allocfail "
       << o.allocFail;
    os << " args " << o.args.size();
    for (auto v : o.args) os << " " << v;
    os << " fargs " << o.fargs.size();
    for (auto v : o.fargs) os << " " << fmtD(v);
    os << "\n";
  }
  os << "variants " << p.variants.size() << "\n";
  for (auto &v : p.variants) {
    os << "  variant " << variantModeName(v.mode) << " cb " << v.cb
       << " schedmode " << v.schedMode;
    writeInts(os, "sched", v.sched);
    os << " clock " << v.clock << " stdoutbad " << v.stdoutBad << "\n";
  }
  os << "gops " << p.gops.size() << "\n";
  for (auto &g : p.gops) {
    os << "  gop " << g.name << " " << g.a.size();
    for (auto v : g.a) os << " " << v;
    os << " " << g.f.size();
    for (auto v : g.f) os << " " << fmtD(v);
    os << "\n";
  }
  os << "end\n";
  return os.str();
}

namespace {
struct Tok {
  std::vector<std::string> t;
  size_t i = 0;
  bool ok = true;
  std::string err;
  bool more() const { return i < t.size(); }
  std::string s() {
    if (i >= t.size()) {
      ok = false;
      err = "unexpected end of plan";
      return "";
    }
    return t[i++];
  }
  long long ll() {
    std::string x = s();
    return ok ? strtoll(x.c_str(), nullptr, 10) : 0;
  }
  double d() {
    std::string x = s();
    return ok ? strtod(x.c_str(), nullptr) : 0;
  }
  float f() {
    std::string x = s();
    return ok ? strtof(x.c_str(), nullptr) : 0;
  }
  void expect(const char *w) {
    std::string x = s();
    if (ok && x != w) {
      ok = false;
      err = std::string("expected '") + w + "' got '" + x + "'";
    }
  }
};

int lookup(const char *const *names, int n, const std::string &s) {
  for (int i = 0; i < n; ++i)
    if (s == names[i]) return i;
  return -1;
}

void readCircuit(Tok &t, const char *tag, CircuitSpec &c) {
  t.expect(tag);
  t.expect("rows");
  long long nr = t.ll();
  t.expect("cells");
  long long nc = t.ll();
  t.expect("nets");
  long long nn = t.ll();
  for (long long i = 0; i < nr && t.ok; ++i) {
    t.expect("row");
    RowSpec r;
    r.minX = t.ll();
    r.maxX = t.ll();
    r.minY = t.ll();
    r.maxY = t.ll();
    r.orient = t.ll();
    c.rows.push_back(r);
  }
  for (long long i = 0; i < nc && t.ok; ++i) {
    t.expect("cell");
    CellSpec k;
    k.w = t.ll();
    k.h = t.ll();
    k.fixed = t.ll();
    k.obs = t.ll();
    k.pol = t.ll();
    k.x = t.ll();
    k.y = t.ll();
    k.orient = t.ll();
    c.cells.push_back(k);
  }
  for (long long i = 0; i < nn && t.ok; ++i) {
    t.expect("net");
    NetSpec n;
    n.weight = t.f();
    long long np = t.ll();
    for (long long j = 0; j < np && t.ok; ++j) {
      n.cells.push_back(t.ll());
      n.xo.push_back(t.ll());
      n.yo.push_back(t.ll());
    }
    c.nets.push_back(n);
  }
}

void readInts(Tok &t, const char *tag, std::vector<int> &v) {
  t.expect(tag);
  long long n = t.ll();
  for (long long i = 0; i < n && t.ok; ++i) v.push_back(t.ll());
}
}  // namespace

bool planFromText(const std::string &text, Plan &p, std::string &err) {
  Tok t;
  t.t = splitWs(text);
  p = Plan();
  t.expect("plan");
  t.expect("v1");
  t.expect("kind");
  p.kind = t.s();
  t.expect("profile");
  p.profile = t.s();
  t.expect("seed");
  p.seed = strtoull(t.s().c_str(), nullptr, 10);
  t.expect("head");
  for (long long n = t.ll(), i = 0; i < n && t.ok; ++i) p.head.push_back(t.ll());
  t.expect("fhead");
  for (long long n = t.ll(), i = 0; i < n && t.ok; ++i) p.fhead.push_back(t.d());
  readCircuit(t, "circuit", p.circuit);
  readCircuit(t, "other", p.other);
  t.expect("ops");
  long long nops = t.ll();
  for (long long i = 0; i < nops && t.ok; ++i) {
    t.expect("op");
    Op o;
    o.kind = lookup(kOpNames, OP_NKINDS, t.s());
    if (o.kind < 0) {
      t.ok = false;
      t.err = "bad op kind";
    }
    t.expect("params");
    o.params.effort = t.ll();
    o.params.seed = t.ll();
    o.params.byEffort = t.ll();
    for (long long n = t.ll(), j = 0; j < n && t.ok; ++j) {
      std::string k = t.s();
      double v = t.d();
      o.params.ov.emplace_back(k, v);
    }
    t.expect("cb");
    o.cb = t.ll();
    t.expect("enum");
    o.enumThrow = t.ll();
    t.expect("actions");
    for (long long n = t.ll(), j = 0; j < n && t.ok; ++j) {
      CbAction a;
      a.k = t.ll();
      a.kind = lookup(kCbNames, CB_NKINDS, t.s());
      a.arg = t.ll();
      if (a.kind < 0) {
        t.ok = false;
        t.err = "bad cb kind";
      }
      o.actions.push_back(a);
    }
    t.expect("schedmode");
    o.schedMode = t.ll();
    readInts(t, "sched", o.sched);
    t.expect("clock");
    o.clock = t.ll();
    t.expect("stdoutbad");
    o.stdoutBad = t.ll();
    t.expect("allocfail");
    o.allocFail = t.ll();
    t.expect("args");
    for (long long n = t.ll(), j = 0; j < n && t.ok; ++j) o.args.push_back(t.ll());
    t.expect("fargs");
    for (long long n = t.ll(), j = 0; j < n && t.ok; ++j) o.fargs.push_back(t.d());
    p.ops.push_back(o);
  }
  t.expect("variants");
  long long nv = t.ll();
  for (long long i = 0; i < nv && t.ok; ++i) {
    t.expect("variant");
    Variant v;
    v.mode = lookup(kVmNames, VM_NKINDS, t.s());
    if (v.mode < 0) {
      t.ok = false;
      t.err = "bad variant mode";
    }
    t.expect("cb");
    v.cb = t.ll();
    t.expect("schedmode");
    v.schedMode = t.ll();
    readInts(t, "sched", v.sched);
    t.expect("clock");
    v.clock = t.ll();
    t.expect("stdoutbad");
    v.stdoutBad = t.ll();
    p.variants.push_back(v);
  }
  t.expect("gops");
  long long ng = t.ll();
  for (long long i = 0; i < ng && t.ok; ++i) {
    t.expect("gop");
    GOp g;
    g.name = t.s();
    for (long long n = t.ll(), j = 0; j < n && t.ok; ++j) g.a.push_back(t.ll());
    for (long long n = t.ll(), j = 0; j < n && t.ok; ++j) g.f.push_back(t.d());
    p.gops.push_back(g);
  }
  t.expect("end");
  err = t.err;
  return t.ok;
}

bool planLoad(const std::string &path, Plan &p, std::string &err) {
  std::ifstream in(path);
  if (!in) {
    err = "cannot open " + path;
    return false;
  }
  std::stringstream ss;
  ss << in.rdbuf();
  return planFromText(ss.str(), p, err);
}

bool planSave(const std::string &path, const Plan &p) {
  std::string tmp = path + ".tmp";
  {
    std::ofstream out(tmp);
    if (!out) return false;
    out << planToText(p);
    if (!out) return false;
  }
  return rename(tmp.c_str(), path.c_str()) == 0;
}

bool planLoadMulti(const std::string &path, std::vector<Plan> &plans, std::string &err) {
  std::ifstream in(path);
  if (!in) {
    err = "cannot open " + path;
    return false;
  }
  std::string line, cur;
  plans.clear();
  while (std::getline(in, line)) {
    cur += line + "\n";
    if (line == "end") {
      Plan p;
      if (!planFromText(cur, p, err)) return false;
      plans.push_back(p);
      cur.clear();
    }
  }
  if (plans.empty()) {
    err = "no plan in " + path;
    return false;
  }
  return true;
}

bool planSaveMulti(const std::string &path, const std::vector<Plan> &plans) {
  std::string tmp = path + ".tmp";
  {
    std::ofstream out(tmp);
    if (!out) return false;
    for (auto &p : plans) out << planToText(p);
    if (!out) return false;
  }
  return rename(tmp.c_str(), path.c_str()) == 0;
}

std::string planSummary(const Plan &p) {
  std::ostringstream os;
  os << p.kind << "/" << p.profile << " seed=" << p.seed;
  if (!p.circuit.cells.empty() || !p.circuit.rows.empty()) {
    int mov = 0;
    for (auto &c : p.circuit.cells) mov += c.fixed ? 0 : 1;
    os << " rows=" << p.circuit.rows.size() << " cells=" << p.circuit.cells.size()
       << "(" << mov << " movable) nets=" << p.circuit.nets.size();
  }
  if (!p.ops.empty()) {
    os << " ops=[";
    for (size_t i = 0; i < p.ops.size(); ++i) {
      auto &o = p.ops[i];
      if (i) os << ",";
      os << opKindName(o.kind);
      if (o.cb) os << "+cb";
      if (o.enumThrow) os << "+enum";
      for (auto &a : o.actions) os << "+" << cbKindName(a.kind) << "@" << a.k;
      if (o.allocFail >= 0) os << "+allocfail@" << o.allocFail;
      if (o.clock) os << "+clock" << o.clock;
      if (o.stdoutBad) os << "+stdoutbad";
      if (!o.sched.empty() || o.schedMode)
        os << "+sched" << o.schedMode << ":" << o.sched.size();
    }
    os << "]";
  }
  if (!p.variants.empty()) {
    os << " variants=[";
    for (size_t i = 0; i < p.variants.size(); ++i) {
      if (i) os << ",";
      os << variantModeName(p.variants[i].mode);
      if (p.variants[i].cb) os << "+cb";
    }
    os << "]";
  }
  if (!p.gops.empty()) {
    os << " gops=" << p.gops.size() << "[";
    for (size_t i = 0; i < p.gops.size() && i < 8; ++i) {
      if (i) os << ",";
      os << p.gops[i].name;
    }
    if (p.gops.size() > 8) os << ",...";
    os << "]";
  }
  return os.str();
}

}  // namespace sim
