// Plans: the explicit, textual description of one simulated run.
//
// generate(seed, profile) -> Plan          (gen.cpp, the only PRNG consumer)
// execute(Plan) -> trace + verdicts        (exec_*.cpp, reads nothing else)
// minimise(Plan, violation class) -> Plan  (minimise.cpp)
//
// Every "choice" stored in a plan is a small integer that the executor
// interprets modulo the number of alternatives available at that moment, so a
// plan stays valid when the minimiser deletes or shrinks any element.
#pragma once
#include <cstdint>
#include <string>
#include <utility>
#include <vector>

namespace sim {

struct RowSpec {
  int minX = 0, maxX = 0, minY = 0, maxY = 0, orient = 0;
};
struct CellSpec {
  int w = 1, h = 1, fixed = 0, obs = 1, pol = 0, x = 0, y = 0, orient = 0;
};
struct NetSpec {
  float weight = 1.0f;
  std::vector<int> cells, xo, yo;
};
struct CircuitSpec {
  std::vector<RowSpec> rows;
  std::vector<CellSpec> cells;
  std::vector<NetSpec> nets;
};

struct ParamSpec {
  int effort = 3;
  int seed = -1;
  int byEffort = 0;  // 1: call the int-effort overload (overrides ignored)
  std::vector<std::pair<std::string, double>> ov;  // field overrides
};

// Operation kinds of the circuit world -------------------------------------
enum OpKind {
  OP_GLOBAL = 0,
  OP_LEGALIZE = 1,
  OP_DETAILED = 2,
  OP_PERTURB = 3,        // args: mode, seed, magnitude
  OP_EXPAND_DENSITY = 4, // fargs: density, margin, maxWidth
  OP_EXPAND_FACTOR = 5,  // args: seed ; fargs: maxFactor, maxDensity, margin
  OP_SET_WEIGHTS = 6,    // args: seed
  OP_BADCALL = 7,        // args: kind, variant
  OP_COPY = 8,           // continue on a copy of the circuit
  OP_CHECK = 9,
  OP_SET_ORIENT = 10,    // args: seed  (re-draw orientations of ANY cells, domain preserving)
  OP_NKINDS
};

// What the callback agent does at invocation k of an op ----------------------
enum CbKind {
  CB_THROW_RT = 0,   // throw std::runtime_error
  CB_THROW_BA = 1,   // throw std::bad_alloc
  CB_THROW_INT = 2,  // throw 42
  CB_POKE = 3,       // call every structural setter, expect refusal
  CB_BADCALL = 4,    // malformed client call inside the callback (arg = kind)
  CB_RESIZE = 5,     // setCellWidth/Height with current values (marks size update)
  CB_NEST = 6,       // run an independent placement of another circuit
  CB_BADPARAMS = 7,  // write an out-of-range value into the caller-owned parameter object of this call (arg = which)
  CB_NKINDS
};
struct CbAction {
  int k = 0;
  int kind = 0;
  long long arg = 0;
};

struct Op {
  int kind = OP_LEGALIZE;
  ParamSpec params;
  int cb = 0;           // 0: no callback, 1: observing agent (+ actions)
  int enumThrow = 0;    // 1: enumerate a throwing callback at every index
  std::vector<CbAction> actions;
  int schedMode = 0;    // see sched.hpp
  std::vector<int> sched;  // scheduler choices, consumed across LB steps
  int clock = 0;        // clock script id
  int stdoutBad = 0;    // std::cout in failed state during the op
  long long allocFail = -1;  // n-th allocation of the op fails (-1: none)
  std::vector<long long> args;
  std::vector<double> fargs;
};

// C08: variants of one reference execution ---------------------------------
enum VariantMode {
  VM_FRESH = 0,      // fresh circuit, other schedule/observer/clock
  VM_COPY = 1,       // run on a C++ copy of the circuit object
  VM_TWICE = 2,      // same circuit spec run twice in a row in this process
  VM_AFTER_OTHER = 3,// after an unrelated placement
  VM_NESTED = 4,     // nested inside a callback of an unrelated placement
  VM_FREERUN = 5,    // threads not serialised, seeded spin delays
  VM_PINNED = 6,     // free-running, pinned to one core
  VM_HISTORY = 7,    // same public state, reached through another history of the Circuit object
  VM_NKINDS
};
struct Variant {
  int mode = 0;
  int cb = 0;
  int schedMode = 0;
  std::vector<int> sched;
  int clock = 0;
  int stdoutBad = 0;
};

// Operations of the small worlds (row legalizer, density grid, incremental
// net model, directly driven detailed placer).
struct GOp {
  std::string name;
  std::vector<long long> a;
  std::vector<double> f;
};

struct Plan {
  std::string kind = "circuit";  // circuit | c08 | rowleg | density | incr | dplacer
  std::string profile;           // informational: which profile generated it
  uint64_t seed = 0;             // informational: generating seed
  std::vector<long long> head;   // kind-specific header numbers
  std::vector<double> fhead;
  CircuitSpec circuit;
  CircuitSpec other;             // unrelated circuit for nest / after-other
  std::vector<Op> ops;
  std::vector<Variant> variants;
  std::vector<GOp> gops;
};

std::string planToText(const Plan &p);
bool planFromText(const std::string &text, Plan &p, std::string &err);
bool planLoad(const std::string &path, Plan &p, std::string &err);
bool planSave(const std::string &path, const Plan &p);
// several plans in one file (executed in order in one process: history replays)
bool planLoadMulti(const std::string &path, std::vector<Plan> &plans, std::string &err);
bool planSaveMulti(const std::string &path, const std::vector<Plan> &plans);
std::string opKindName(int k);
std::string cbKindName(int k);
std::string variantModeName(int k);
// one-line human description used for evidence samples
std::string planSummary(const Plan &p);

}  // namespace sim
