// See sched.hpp.  This translation unit is never sanitizer-instrumented.
#include "sched.hpp"

#include <dlfcn.h>
#include <fcntl.h>
#include <linux/futex.h>
#include <pthread.h>
#include <sched.h>
#include <stdarg.h>
#include <stdio.h>
#include <stdlib.h>
#include <string.h>
#include <sys/syscall.h>
#include <sys/time.h>
#include <time.h>
#include <unistd.h>

#include <atomic>
#include <climits>
#include <cstddef>
#include <new>

namespace {

// ------------------------------------------------------------------ hash --
inline uint64_t smix(uint64_t a, uint64_t b) {
  uint64_t x = a ^ (b + 0x9e3779b97f4a7c15ULL + (a << 6) + (a >> 2));
  x += 0x9e3779b97f4a7c15ULL;
  x = (x ^ (x >> 30)) * 0xbf58476d1ce4e5b9ULL;
  x = (x ^ (x >> 27)) * 0x94d049bb133111ebULL;
  return x ^ (x >> 31);
}

// ------------------------------------------------------------- scheduler --
enum Site {
  LB_BEGIN = 1,
  LB_JOINED = 2,
  SOLVE_BEGIN = 10,
  SOLVE_BUILT = 11,
  SOLVE_PENALISED = 12,
  SOLVE_ASSEMBLED = 13,
  SOLVE_END = 14
};

int g_mode = sim::SM_OFF;
const int *g_choices = nullptr;
int g_nChoices = 0;
int g_cursor = 0;
std::atomic<int> g_freeCursor{0};

std::atomic<int> g_turn{-1};
std::atomic<bool> g_stepActive{false};
const void *g_xObj = nullptr;
bool g_finished[2] = {false, false};
int g_holder = -1;
int g_firstFinisher = -1;
long long g_stepSwitches = 0;
uint64_t g_stepSig = 0;
sim::SchedStats g_stats;

// ---- thread start order ----------------------------------------------------
// Whether a freshly created solver thread or its creator runs first is a
// scheduling decision like any other.  pthread_create is interposed (below):
// for every thread created by the main thread during a lower-bound step the
// scheduler decides "child first" (the creator waits until the child has
// reached its first sync point or finished) or "creator first" (the child is
// held until the creator has made progress: created the next thread, reached a
// sync point itself, or a short grace period has passed because it went to
// sleep in future::get()).
constexpr int kMaxChildren = 16;
std::atomic<int> g_childState[kMaxChildren];  // 0 created, 1 at a sync point, 2 finished
std::atomic<int> g_nChildren{0};
std::atomic<long long> g_creatorEpoch{0};
pid_t g_mainTid = 0;
thread_local int t_childIndex = -1;
bool g_childFirst[kMaxChildren];  // decided at LB_BEGIN, before any worker exists

// ---- robustness against a restructured library ------------------------------
// The token protocol assumes that both solves of a step run concurrently.  A
// library that runs them differently while keeping every property (deferred
// launch, one solve on the calling thread before the other is started, a
// persistent worker) must not dead-lock the harness:
//  * sequential rule: a solve executed by the creator thread while no child
//    thread exists cannot overlap the other solve; its sync points pass
//    through (deterministic, no waiting);
//  * give-up rule: a thread that waits for a turn held by a solve that has not
//    even started for kGiveUpSeconds of real time stops the scheduler for the
//    rest of the process ("degraded"): all sync points pass through, the trace
//    records "sched degraded" instead of a grant hash, so that the runs of a
//    process stay comparable with each other and with fresh processes.
constexpr double kGiveUpSeconds = 5.0;
std::atomic<bool> g_degraded{false};
std::atomic<int> g_arrived[2];

double realSeconds() {
  struct timespec ts;
  syscall(SYS_clock_gettime, CLOCK_MONOTONIC, &ts);  // the raw kernel clock, not the scripted one
  return (double)ts.tv_sec + 1e-9 * (double)ts.tv_nsec;
}

void futexWake() {
  syscall(SYS_futex, reinterpret_cast<int *>(&g_turn), FUTEX_WAKE_PRIVATE,
          INT_MAX, nullptr, nullptr, 0);
}

bool waitTurn(int w) {
  int spins = 0;
  double waitingSince = -1;
  for (;;) {
    if (g_degraded.load(std::memory_order_acquire)) return false;
    int cur = g_turn.load(std::memory_order_acquire);
    if (cur == w) return true;
    if (++spins < 64) {
      sched_yield();
      continue;
    }
    if (cur >= 0 && cur < 2 && g_arrived[cur].load(std::memory_order_acquire) == 0) {
      // the holder of the turn has not started its solve
      double now = realSeconds();
      if (waitingSince < 0) waitingSince = now;
      else if (now - waitingSince > kGiveUpSeconds) {
        g_degraded.store(true, std::memory_order_release);
        futexWake();
        return false;
      }
    } else {
      waitingSince = -1;
    }
    struct timespec ts = {0, 2000000};  // 2 ms safety net against lost wakes
    syscall(SYS_futex, reinterpret_cast<int *>(&g_turn), FUTEX_WAIT_PRIVATE,
            cur, &ts, nullptr, 0);
  }
}

// Decide who runs the next segment.  Only ever called by the token holder
// (or by the main thread before any worker exists), so the choice cursor and
// the statistics are touched by one thread at a time, in an order that
// depends on the plan alone.
int chooseNext(int current) {
  bool x = !g_finished[0], y = !g_finished[1];
  if (x && !y) return 0;
  if (y && !x) return 1;
  if (!x && !y) return -1;
  switch (g_mode) {
    case sim::SM_XY: return 0;
    case sim::SM_YX: return 1;
    case sim::SM_ALT: return current < 0 ? 0 : 1 - current;
    case sim::SM_ALTY: return current < 0 ? 1 : 1 - current;
    case sim::SM_PLAN:
      if (g_cursor < g_nChoices) {
        int c = g_choices[g_cursor++];
        g_stats.choicesConsumed++;
        if (c < 0) c = -c;
        return c % 2;
      }
      return 0;
    default: return 0;
  }
}

void grant(int w, int site) {
  g_stats.grants++;
  g_stats.grantHash = smix(g_stats.grantHash, (uint64_t)(w * 100 + site));
  g_stepSig = smix(g_stepSig, (uint64_t)(w * 100 + site));
  if (g_holder >= 0 && g_holder != w) {
    g_stats.switches++;
    g_stepSwitches++;
  }
  g_holder = w;
}

void spinDelay(int units) {
  volatile unsigned sink = 0;
  for (int i = 0; i < units * 2000; ++i) sink = sink + i;
  if (units % 3 == 0) sched_yield();
}

}  // namespace

extern "C" void coloquinte_verif_point(int site, const void *obj) {
  if (g_mode == sim::SM_OFF) return;
  if (site == LB_BEGIN) {
    g_stats.lbSteps++;
    if (g_mode == sim::SM_FREE) {
      g_xObj = obj;
      g_stepActive.store(true, std::memory_order_release);
      return;
    }
    g_xObj = obj;
    g_mainTid = (pid_t)syscall(SYS_gettid);
    g_nChildren.store(0, std::memory_order_relaxed);
    for (auto &c : g_childState) c.store(0, std::memory_order_relaxed);
    g_finished[0] = g_finished[1] = false;
    g_arrived[0].store(0, std::memory_order_relaxed);
    g_arrived[1].store(0, std::memory_order_relaxed);
    g_holder = -1;
    g_firstFinisher = -1;
    g_stepSwitches = 0;
    g_stepSig = 0;
    int first = chooseNext(-1);
    // start-order decisions for the threads this step will create: taken here,
    // by the main thread, so that the choice cursor is never touched by two
    // threads at once
    for (int i = 0; i < kMaxChildren; ++i) g_childFirst[i] = false;
    for (int i = 0; i < 2; ++i) {
      switch (g_mode) {
        case sim::SM_YX:
        case sim::SM_ALTY: g_childFirst[i] = true; break;
        case sim::SM_PLAN:
          if (g_cursor < g_nChoices) {
            int c = g_choices[g_cursor++];
            g_stats.choicesConsumed++;
            if (c < 0) c = -c;
            g_childFirst[i] = (c % 2) == 1;
          }
          break;
        default: break;
      }
    }
    for (int i = 0; i < 2; ++i) {
      g_stats.grantHash = smix(g_stats.grantHash, (uint64_t)(g_childFirst[i] ? 7001 : 7002) + (uint64_t)i * 16);
      g_stepSig = smix(g_stepSig, (uint64_t)(g_childFirst[i] ? 7001 : 7002) + (uint64_t)i * 16);
    }
    g_turn.store(first, std::memory_order_release);
    g_stepActive.store(true, std::memory_order_release);
    return;
  }
  if (site == LB_JOINED) {
    g_stepActive.store(false, std::memory_order_release);
    if (g_mode == sim::SM_FREE) return;
    if (g_firstFinisher == 1) g_stats.yFinishedFirst++;
    if (g_firstFinisher == 0) g_stats.xFinishedFirst++;
    if (g_stepSwitches > g_stats.maxSwitchesInStep)
      g_stats.maxSwitchesInStep = g_stepSwitches;
    g_stats.stepSigHash = smix(g_stats.stepSigHash, g_stepSig);
    g_turn.store(-1, std::memory_order_release);
    return;
  }
  if (!g_stepActive.load(std::memory_order_acquire)) return;
  if (g_degraded.load(std::memory_order_acquire)) return;
  if (g_mode != sim::SM_FREE && t_childIndex < 0 && (pid_t)syscall(SYS_gettid) == g_mainTid &&
      g_nChildren.load(std::memory_order_acquire) == 0) {
    // sequential rule: the creator runs this solve and no other thread exists
    int ws = (obj == g_xObj) ? 0 : 1;
    if (site == SOLVE_BEGIN) g_stats.sequentialSolves++;
    if (site == SOLVE_END) {
      g_finished[ws] = true;
      if (g_firstFinisher < 0) g_firstFinisher = ws;
    }
    return;
  }
  if (t_childIndex >= 0 && t_childIndex < kMaxChildren) {
    int expected = 0;
    g_childState[t_childIndex].compare_exchange_strong(expected, 1, std::memory_order_acq_rel);
  } else if ((pid_t)syscall(SYS_gettid) == g_mainTid) {
    g_creatorEpoch.fetch_add(1, std::memory_order_acq_rel);  // the creator itself runs a solve
  }
  int w = (obj == g_xObj) ? 0 : 1;
  if (g_mode == sim::SM_FREE) {
    if (g_nChoices > 0) {
      int i = g_freeCursor.fetch_add(1, std::memory_order_relaxed);
      int c = g_choices[i % g_nChoices];
      if (c < 0) c = -c;
      spinDelay(c % 16);
      // not deterministic by construction: only counted
    }
    return;
  }
  switch (site) {
    case SOLVE_BEGIN:
      g_arrived[w].store(1, std::memory_order_release);
      if (!waitTurn(w)) return;
      grant(w, site);
      return;
    case SOLVE_BUILT:
    case SOLVE_PENALISED:
    case SOLVE_ASSEMBLED: {
      int next = chooseNext(w);
      if (next == w || next < 0) {
        grant(w, site);
        return;
      }
      g_turn.store(next, std::memory_order_release);
      futexWake();
      if (!waitTurn(w)) return;
      grant(w, site);
      return;
    }
    case SOLVE_END: {
      g_finished[w] = true;
      if (g_firstFinisher < 0) g_firstFinisher = w;
      g_stats.grantHash = smix(g_stats.grantHash, (uint64_t)(w * 100 + site));
      g_stepSig = smix(g_stepSig, (uint64_t)(w * 100 + site));
      int other = 1 - w;
      if (!g_finished[other]) {
        g_turn.store(other, std::memory_order_release);
        futexWake();
      }
      return;
    }
    default: return;
  }
}

namespace {
struct Trampoline {
  void *(*fn)(void *);
  void *arg;
  int index;
  bool creatorFirst;
  long long epochAtCreate;
};

void *trampoline(void *p) {
  Trampoline t = *static_cast<Trampoline *>(p);
  free(p);
  t_childIndex = t.index;
  if (t.creatorFirst) {
    // hold this thread until its creator has made progress (bounded wait)
    for (int i = 0; i < 4000; ++i) {
      if (g_creatorEpoch.load(std::memory_order_acquire) != t.epochAtCreate) break;
      if (!g_stepActive.load(std::memory_order_acquire)) break;
      if (i < 200) sched_yield();
      else {
        struct timespec ts = {0, 50000};
        nanosleep(&ts, nullptr);
      }
      if (i == 400) break;  // ~10 ms: the creator sleeps in future::get()
    }
  }
  void *r = t.fn(t.arg);
  if (t.index >= 0 && t.index < kMaxChildren) g_childState[t.index].store(2, std::memory_order_release);
  t_childIndex = -1;
  return r;
}

}  // namespace

extern "C" int pthread_create(pthread_t *thread, const pthread_attr_t *attr, void *(*fn)(void *), void *arg) {
  using Real = int (*)(pthread_t *, const pthread_attr_t *, void *(*)(void *), void *);
  static Real real = reinterpret_cast<Real>(dlsym(RTLD_NEXT, "pthread_create"));
  bool controlled = g_mode != sim::SM_OFF && g_mode != sim::SM_FREE && !g_degraded.load(std::memory_order_acquire) &&
                    g_stepActive.load(std::memory_order_acquire) &&
                    (pid_t)syscall(SYS_gettid) == g_mainTid;
  if (!controlled) return real(thread, attr, fn, arg);
  long long epoch = g_creatorEpoch.fetch_add(1, std::memory_order_acq_rel) + 1;  // creating a thread is progress
  int index = g_nChildren.fetch_add(1, std::memory_order_acq_rel);
  bool childFirst = index < kMaxChildren ? g_childFirst[index] : false;
  Trampoline *t = static_cast<Trampoline *>(malloc(sizeof(Trampoline)));
  if (!t || index >= kMaxChildren) {
    free(t);
    return real(thread, attr, fn, arg);
  }
  t->fn = fn;
  t->arg = arg;
  t->index = index;
  t->creatorFirst = !childFirst;
  t->epochAtCreate = epoch;
  if (childFirst) g_stats.childFirstStarts++;
  else g_stats.creatorFirstStarts++;
  int rc = real(thread, attr, trampoline, t);
  if (rc != 0) {
    free(t);
    return rc;
  }
  if (childFirst) {
    // wait until the child is parked at its first sync point or has finished
    bool ok = false;
    for (int i = 0; i < 40000; ++i) {
      if (g_childState[index].load(std::memory_order_acquire) != 0) {
        ok = true;
        break;
      }
      if (i < 200) sched_yield();
      else {
        struct timespec ts = {0, 50000};
        nanosleep(&ts, nullptr);
      }
    }
    if (!ok) g_stats.startOrderTimeouts++;
  }
  return rc;
}

namespace sim {

void schedBegin(int mode, const int *choices, int n) {
  g_mode = mode;
  g_choices = choices;
  g_nChoices = n;
  g_cursor = 0;
  g_freeCursor.store(0);
  g_stats = SchedStats();
  g_turn.store(-1);
  g_stepActive.store(false);
}

void schedEnd(SchedStats *out) {
  if (out) {
    *out = g_stats;
    if (g_mode == SM_FREE) out->freeDelays = g_freeCursor.load();
    out->degraded = g_degraded.load(std::memory_order_acquire);
  }
  g_mode = SM_OFF;
  g_choices = nullptr;
  g_nChoices = 0;
}

bool schedStepActive() { return g_stepActive.load(std::memory_order_acquire); }

}  // namespace sim

// ===================================================================== clock
namespace {
std::atomic<int> g_clockActive{0};
int g_clockScript = 0;
std::atomic<long long> g_clockReads{0};
std::atomic<long long> g_clockReadsTotal{0};

// Scripted time in nanoseconds as a function of the number of reads so far.
// Scripts: 0 steady 1 ms per read | 1 huge offset | 2 runs backwards |
// 3 jumps forward by ~11 days per read | 4 frozen at zero | 5 sawtooth with
// backward jumps | 6 close to the end of the 64-bit nanosecond range
void scriptedTime(long long reads, struct timespec *ts) {
  long long sec = 0, nsec = 0;
  switch (g_clockScript) {
    default:
    case 0: sec = 1000 + reads / 1000; nsec = (reads % 1000) * 1000000; break;
    case 1: sec = 4000000000LL + reads; nsec = 999999999; break;
    case 2: sec = 2000000000LL - reads * 3600; nsec = 0; break;
    case 3: sec = 1000 + reads * 1000000; nsec = 123456789; break;
    case 4: sec = 0; nsec = 0; break;
    case 5: sec = 5000 + ((reads % 2) ? -(reads * 17) : (reads * 31)); nsec = 5; break;
    case 6: sec = 9000000000LL + reads * 7; nsec = 999999999; break;
  }
  ts->tv_sec = (time_t)sec;
  ts->tv_nsec = (long)nsec;
}
}  // namespace

extern "C" int clock_gettime(clockid_t id, struct timespec *ts) {
  if (g_clockActive.load(std::memory_order_relaxed) && ts) {
    long long r = g_clockReads.fetch_add(1, std::memory_order_relaxed);
    g_clockReadsTotal.fetch_add(1, std::memory_order_relaxed);
    scriptedTime(r, ts);
    return 0;
  }
  return (int)syscall(SYS_clock_gettime, id, ts);
}

extern "C" int gettimeofday(struct timeval *tv, void *tz) {
  if (g_clockActive.load(std::memory_order_relaxed) && tv) {
    long long r = g_clockReads.fetch_add(1, std::memory_order_relaxed);
    g_clockReadsTotal.fetch_add(1, std::memory_order_relaxed);
    struct timespec ts;
    scriptedTime(r, &ts);
    tv->tv_sec = ts.tv_sec;
    tv->tv_usec = ts.tv_nsec / 1000;
    return 0;
  }
  return (int)syscall(SYS_gettimeofday, tv, tz);
}

extern "C" time_t time(time_t *out) {
  if (g_clockActive.load(std::memory_order_relaxed)) {
    long long r = g_clockReads.fetch_add(1, std::memory_order_relaxed);
    g_clockReadsTotal.fetch_add(1, std::memory_order_relaxed);
    struct timespec ts;
    scriptedTime(r, &ts);
    if (out) *out = ts.tv_sec;
    return ts.tv_sec;
  }
  struct timespec ts;
  syscall(SYS_clock_gettime, CLOCK_REALTIME, &ts);
  if (out) *out = ts.tv_sec;
  return ts.tv_sec;
}

namespace sim {
void clockBegin(int script) {
  g_clockScript = script;
  g_clockReads.store(0);
  g_clockActive.store(1);
}
void clockEnd() { g_clockActive.store(0); }
long long clockReads() { return g_clockReads.load(); }
long long clockReadsTotal() { return g_clockReadsTotal.load(); }
}  // namespace sim

// =================================================================== entropy
namespace {
std::atomic<int> g_entropyArmed{0};
std::atomic<long long> g_entropyTrips{0};
const char *g_entropySource = "";
void trip(const char *what) {
  if (g_entropyArmed.load(std::memory_order_relaxed)) {
    g_entropyTrips.fetch_add(1, std::memory_order_relaxed);
    g_entropySource = what;
  }
}
template <class F>
F nextSym(const char *name) {
  return reinterpret_cast<F>(dlsym(RTLD_NEXT, name));
}
}  // namespace

extern "C" ssize_t getrandom(void *buf, size_t len, unsigned int flags) {
  trip("getrandom");
  return syscall(SYS_getrandom, buf, len, flags);
}
extern "C" int getentropy(void *buf, size_t len) {
  trip("getentropy");
  if (len > 256) return -1;
  return syscall(SYS_getrandom, buf, len, 0) == (long)len ? 0 : -1;
}
extern "C" uint32_t arc4random(void) {
  trip("arc4random");
  uint32_t v = 0;
  syscall(SYS_getrandom, &v, sizeof v, 0);
  return v;
}
extern "C" void arc4random_buf(void *buf, size_t n) {
  trip("arc4random_buf");
  syscall(SYS_getrandom, buf, n, 0);
}
extern "C" int rand(void) {
  trip("rand");
  static auto f = nextSym<int (*)(void)>("rand");
  return f ? f() : 0;
}
extern "C" void srand(unsigned s) {
  trip("srand");
  static auto f = nextSym<void (*)(unsigned)>("srand");
  if (f) f(s);
}
extern "C" long random(void) {
  trip("random");
  static auto f = nextSym<long (*)(void)>("random");
  return f ? f() : 0;
}
extern "C" double drand48(void) {
  trip("drand48");
  static auto f = nextSym<double (*)(void)>("drand48");
  return f ? f() : 0.0;
}
extern "C" long lrand48(void) {
  trip("lrand48");
  static auto f = nextSym<long (*)(void)>("lrand48");
  return f ? f() : 0;
}
static bool isRandomDev(const char *p) {
  return p && (strcmp(p, "/dev/urandom") == 0 || strcmp(p, "/dev/random") == 0);
}
extern "C" int open(const char *path, int flags, ...) {
  mode_t mode = 0;
  if ((flags & O_CREAT) || (flags & O_TMPFILE) == O_TMPFILE) {
    va_list ap;
    va_start(ap, flags);
    mode = va_arg(ap, mode_t);
    va_end(ap);
  }
  if (isRandomDev(path)) trip("open(/dev/*random)");
  return (int)syscall(SYS_openat, AT_FDCWD, path, flags, mode);
}
extern "C" int open64(const char *path, int flags, ...) {
  mode_t mode = 0;
  if ((flags & O_CREAT) || (flags & O_TMPFILE) == O_TMPFILE) {
    va_list ap;
    va_start(ap, flags);
    mode = va_arg(ap, mode_t);
    va_end(ap);
  }
  if (isRandomDev(path)) trip("open64(/dev/*random)");
  return (int)syscall(SYS_openat, AT_FDCWD, path, flags | O_LARGEFILE, mode);
}

namespace sim {
void entropyArm(bool on) {
  if (on) g_entropyTrips.store(0);
  g_entropyArmed.store(on ? 1 : 0);
}
long long entropyTrips() { return g_entropyTrips.load(); }
const char *entropyLastSource() { return g_entropySource; }
}  // namespace sim

// ================================================================ allocation
namespace {
thread_local bool t_libraryMode = false;
std::atomic<long long> g_allocCount{0};
std::atomic<long long> g_allocFailAt{-1};
std::atomic<int> g_allocArmed{0};
std::atomic<int> g_allocFired{0};

inline bool shouldFail() {
  if (!t_libraryMode) return false;
  if (!g_allocArmed.load(std::memory_order_relaxed)) return false;
  long long n = g_allocCount.fetch_add(1, std::memory_order_relaxed);
  long long at = g_allocFailAt.load(std::memory_order_relaxed);
  if (at >= 0 && n == at) {
    // never fail while solver threads are live: a failed second std::async
    // would leave the first worker parked for ever (harness limitation)
    if (sim::schedStepActive()) return false;
    g_allocFired.store(1, std::memory_order_relaxed);
    return true;
  }
  return false;
}

inline void *doAlloc(size_t n, size_t align) {
  if (n == 0) n = 1;
  if (align <= alignof(std::max_align_t)) return malloc(n);
  void *p = nullptr;
  if (posix_memalign(&p, align, n) != 0) return nullptr;
  return p;
}
}  // namespace

void *operator new(size_t n) {
  if (shouldFail()) throw std::bad_alloc();
  void *p = doAlloc(n, 1);
  if (!p) throw std::bad_alloc();
  return p;
}
void *operator new[](size_t n) {
  if (shouldFail()) throw std::bad_alloc();
  void *p = doAlloc(n, 1);
  if (!p) throw std::bad_alloc();
  return p;
}
void *operator new(size_t n, const std::nothrow_t &) noexcept {
  if (shouldFail()) return nullptr;
  return doAlloc(n, 1);
}
void *operator new[](size_t n, const std::nothrow_t &) noexcept {
  if (shouldFail()) return nullptr;
  return doAlloc(n, 1);
}
void *operator new(size_t n, std::align_val_t a) {
  if (shouldFail()) throw std::bad_alloc();
  void *p = doAlloc(n, (size_t)a);
  if (!p) throw std::bad_alloc();
  return p;
}
void *operator new[](size_t n, std::align_val_t a) {
  if (shouldFail()) throw std::bad_alloc();
  void *p = doAlloc(n, (size_t)a);
  if (!p) throw std::bad_alloc();
  return p;
}
void *operator new(size_t n, std::align_val_t a, const std::nothrow_t &) noexcept {
  if (shouldFail()) return nullptr;
  return doAlloc(n, (size_t)a);
}
void *operator new[](size_t n, std::align_val_t a, const std::nothrow_t &) noexcept {
  if (shouldFail()) return nullptr;
  return doAlloc(n, (size_t)a);
}
void operator delete(void *p) noexcept { free(p); }
void operator delete[](void *p) noexcept { free(p); }
void operator delete(void *p, size_t) noexcept { free(p); }
void operator delete[](void *p, size_t) noexcept { free(p); }
void operator delete(void *p, const std::nothrow_t &) noexcept { free(p); }
void operator delete[](void *p, const std::nothrow_t &) noexcept { free(p); }
void operator delete(void *p, std::align_val_t) noexcept { free(p); }
void operator delete[](void *p, std::align_val_t) noexcept { free(p); }
void operator delete(void *p, size_t, std::align_val_t) noexcept { free(p); }
void operator delete[](void *p, size_t, std::align_val_t) noexcept { free(p); }
void operator delete(void *p, std::align_val_t, const std::nothrow_t &) noexcept { free(p); }
void operator delete[](void *p, std::align_val_t, const std::nothrow_t &) noexcept { free(p); }

namespace sim {
void allocArm(long long n) {
  g_allocCount.store(0);
  g_allocFailAt.store(n);
  g_allocFired.store(0);
  g_allocArmed.store(1);
}
long long allocDisarm() {
  g_allocArmed.store(0);
  return g_allocCount.load();
}
bool allocFired() { return g_allocFired.load() != 0; }
void allocLibraryMode(bool on) { t_libraryMode = on; }
}  // namespace sim
