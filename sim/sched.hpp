// Deterministic scheduler for the two solver threads of GlobalPlacer::runLB,
// plus the interposed clock / entropy / allocator seams.
//
// sched.cpp is compiled WITHOUT -fsanitize=thread in every flavour: the token
// hand-off uses plain atomics and futexes that ThreadSanitizer cannot see, so
// serialising the threads adds no happens-before edge and TSan still reports
// any pair of accesses the library itself leaves unordered.
#pragma once
#include <cstdint>

namespace sim {

enum SchedMode {
  SM_XY = 0,    // X runs to completion, then Y
  SM_YX = 1,    // Y runs to completion, then X
  SM_ALT = 2,   // strict alternation at every sync point, X first
  SM_ALTY = 3,  // strict alternation, Y first
  SM_PLAN = 4,  // choices from the plan (mod alternatives), then as SM_XY
  SM_FREE = 5,  // no serialisation: truly concurrent, seeded spin delays
  SM_OFF = 6    // hooks are no-ops
};

struct SchedStats {
  long long grants = 0;          // token grants (scheduler decisions taken)
  long long lbSteps = 0;         // lower-bound steps seen
  long long yFinishedFirst = 0;  // steps in which Y completed before X
  long long xFinishedFirst = 0;
  long long switches = 0;        // grants that changed the running thread
  long long maxSwitchesInStep = 0;
  long long choicesConsumed = 0;
  long long freeDelays = 0;
  long long childFirstStarts = 0;    // thread creations where the new thread was run first
  long long creatorFirstStarts = 0;  // ... where its creator was run first
  long long startOrderTimeouts = 0;  // child-first waits that timed out (must stay 0)
  long long sequentialSolves = 0;    // solves run by the creator with no other thread alive (pass-through)
  bool degraded = false;             // the scheduler gave up in this process (see sched.cpp), nothing was serialised
  uint64_t grantHash = 0;        // hash chain of (worker, site) in grant order
  uint64_t stepSigHash = 0;      // hash over per-step interleaving signatures
};

// Install the schedule for everything that runs until schedEnd().
void schedBegin(int mode, const int *choices, int n);
void schedEnd(SchedStats *out);
// True while a lower-bound step has live solver threads (used to keep
// allocation faults away from them).
bool schedStepActive();

// ---- clock seam -----------------------------------------------------------
// While active, clock_gettime/gettimeofday/time return values computed from
// the script id and the number of reads so far; outside they forward to the
// kernel.
void clockBegin(int script);
void clockEnd();
long long clockReads();       // reads intercepted since clockBegin
long long clockReadsTotal();  // since process start (while active)

// ---- entropy tripwires ----------------------------------------------------
void entropyArm(bool on);
long long entropyTrips();  // calls seen while armed since last arm(true)
const char *entropyLastSource();

// ---- allocation faults ----------------------------------------------------
// The n-th (0-based) operator new executed on the calling thread while
// "library mode" is on throws std::bad_alloc.
void allocArm(long long n);   // n < 0: count only
long long allocDisarm();      // returns number of counted allocations
bool allocFired();
void allocLibraryMode(bool on);  // thread-local

}  // namespace sim
