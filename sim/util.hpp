// Small utilities shared by the simulator: PRNG, hashing, string helpers.
#pragma once
#include <algorithm>
#include <cstdint>
#include <cstdio>
#include <cstring>
#include <map>
#include <sstream>
#include <string>
#include <vector>

namespace sim {

// ---------------------------------------------------------------- PRNG ----
// splitmix64 seeds xoshiro256**.  Every random choice of generation derives
// from one integer; execution of a plan never draws from a PRNG seeded by
// anything but numbers written in the plan.
inline uint64_t splitmix64(uint64_t &x) {
  uint64_t z = (x += 0x9e3779b97f4a7c15ULL);
  z = (z ^ (z >> 30)) * 0xbf58476d1ce4e5b9ULL;
  z = (z ^ (z >> 27)) * 0x94d049bb133111ebULL;
  return z ^ (z >> 31);
}

inline uint64_t mix64(uint64_t a, uint64_t b) {
  uint64_t x = a ^ (b + 0x9e3779b97f4a7c15ULL + (a << 6) + (a >> 2));
  return splitmix64(x);
}

inline uint64_t hashStr(const std::string &s) {
  uint64_t h = 1469598103934665603ULL;
  for (unsigned char c : s) {
    h ^= c;
    h *= 1099511628211ULL;
  }
  return h;
}

class Rng {
 public:
  explicit Rng(uint64_t seed = 1) { reseed(seed); }
  void reseed(uint64_t seed) {
    uint64_t x = seed;
    for (auto &v : s_) v = splitmix64(x);
  }
  // independent sub-stream by label, so adding a consumer does not reshuffle
  // the others
  Rng fork(const std::string &label) const {
    return Rng(mix64(s_[0] ^ s_[3], hashStr(label)));
  }
  uint64_t next() {
    auto rotl = [](uint64_t x, int k) { return (x << k) | (x >> (64 - k)); };
    uint64_t result = rotl(s_[1] * 5, 7) * 9;
    uint64_t t = s_[1] << 17;
    s_[2] ^= s_[0];
    s_[3] ^= s_[1];
    s_[1] ^= s_[2];
    s_[0] ^= s_[3];
    s_[2] ^= t;
    s_[3] = rotl(s_[3], 45);
    return result;
  }
  // uniform in [0, n)
  uint64_t below(uint64_t n) { return n == 0 ? 0 : next() % n; }
  // uniform in [lo, hi]
  long long range(long long lo, long long hi) {
    if (hi <= lo) return lo;
    return lo + (long long)below((uint64_t)(hi - lo) + 1);
  }
  double unit() { return (next() >> 11) * (1.0 / 9007199254740992.0); }
  double real(double lo, double hi) { return lo + (hi - lo) * unit(); }
  bool chance(double p) { return unit() < p; }
  template <class T>
  const T &pick(const std::vector<T> &v) {
    return v[below(v.size())];
  }

 private:
  uint64_t s_[4];
};

// ------------------------------------------------------------- hashing ----
// Order-sensitive hash chain used for traces.
struct HashChain {
  uint64_t h = 0x243f6a8885a308d3ULL;
  void add(uint64_t v) { h = mix64(h, v); }
  void addStr(const std::string &s) { add(hashStr(s)); }
  void addInts(const std::vector<int> &v) {
    add(v.size());
    for (int x : v) add((uint64_t)(uint32_t)x);
  }
};

// ------------------------------------------------------------- strings ----
inline std::vector<std::string> splitWs(const std::string &line) {
  std::vector<std::string> out;
  std::istringstream is(line);
  std::string t;
  while (is >> t) out.push_back(t);
  return out;
}

inline std::string jsonEscape(const std::string &s) {
  std::string o;
  for (unsigned char c : s) {
    switch (c) {
      case '"': o += "\\\""; break;
      case '\\': o += "\\\\"; break;
      case '\n': o += "\\n"; break;
      case '\t': o += "\\t"; break;
      case '\r': o += "\\r"; break;
      default:
        if (c < 0x20) {
          char b[8];
          snprintf(b, sizeof b, "\\u%04x", c);
          o += b;
        } else {
          o += (char)c;
        }
    }
  }
  return o;
}

inline std::string hex64(uint64_t v) {
  char b[20];
  snprintf(b, sizeof b, "%016llx", (unsigned long long)v);
  return b;
}

// Counter bag used for statistics that travel from workers to the parent.
struct Counters {
  std::map<std::string, long long> c;
  void inc(const std::string &k, long long d = 1) { c[k] += d; }
  long long get(const std::string &k) const {
    auto it = c.find(k);
    return it == c.end() ? 0 : it->second;
  }
  void merge(const Counters &o) {
    for (auto &kv : o.c) {
      if (kv.first.compare(0, 9, "sched_max") == 0) c[kv.first] = std::max(c[kv.first], kv.second);  // maxima are not summed
      else c[kv.first] += kv.second;
    }
  }
};

}  // namespace sim
