#include "world.hpp"

#include <algorithm>
#include <cmath>
#include <cstring>
#include <functional>
#include <sstream>
#include <stdexcept>

#include "util.hpp"

namespace sim {

using namespace coloquinte;

Circuit buildCircuit(const CircuitSpec &spec) {
  int n = (int)spec.cells.size();
  Circuit c(n);
  std::vector<int> w(n), h(n), x(n), y(n);
  std::vector<bool> fixed(n), obs(n);
  std::vector<CellRowPolarity> pol(n);
  std::vector<CellOrientation> orient(n);
  for (int i = 0; i < n; ++i) {
    const CellSpec &k = spec.cells[i];
    w[i] = k.w;
    h[i] = k.h;
    x[i] = k.x;
    y[i] = k.y;
    fixed[i] = k.fixed != 0;
    obs[i] = k.obs != 0;
    pol[i] = static_cast<CellRowPolarity>(k.pol);
    orient[i] = static_cast<CellOrientation>(k.orient);
  }
  c.setCellWidth(w);
  c.setCellHeight(h);
  c.setCellX(x);
  c.setCellY(y);
  c.setCellIsFixed(fixed);
  c.setCellIsObstruction(obs);
  c.setCellRowPolarity(pol);
  c.setCellOrientation(orient);
  std::vector<Row> rows;
  for (auto &r : spec.rows)
    rows.emplace_back(r.minX, r.maxX, r.minY, r.maxY, static_cast<CellOrientation>(r.orient));
  c.setRows(rows);
  for (auto &net : spec.nets) c.addNet(net.cells, net.xo, net.yo, net.weight);
  // building a circuit is not a cell-size / net update of a running placement
  c.hasCellSizeUpdate_ = false;
  c.hasNetUpdate_ = false;
  return c;
}

namespace {
struct Field {
  const char *name;
  std::function<void(ColoquinteParameters &, double)> set;
};
const std::vector<Field> &fields() {
  static const std::vector<Field> f = {
      {"g.maxNbSteps", [](ColoquinteParameters &p, double v) { p.global.maxNbSteps = (int)v; }},
      {"g.nbInitialSteps", [](ColoquinteParameters &p, double v) { p.global.nbInitialSteps = (int)v; }},
      {"g.nbStepsBeforeRoughLegalization", [](ColoquinteParameters &p, double v) { p.global.nbStepsBeforeRoughLegalization = (int)v; }},
      {"g.gapTolerance", [](ColoquinteParameters &p, double v) { p.global.gapTolerance = v; }},
      {"g.distanceTolerance", [](ColoquinteParameters &p, double v) { p.global.distanceTolerance = v; }},
      {"g.penaltyUpdateDistance", [](ColoquinteParameters &p, double v) { p.global.penaltyUpdateDistance = v; }},
      {"g.penaltyUpdateBackoff", [](ColoquinteParameters &p, double v) { p.global.penaltyUpdateBackoff = v; }},
      {"g.exportBlending", [](ColoquinteParameters &p, double v) { p.global.exportBlending = v; }},
      {"g.noise", [](ColoquinteParameters &p, double v) { p.global.noise = v; }},
      {"cm.netModel", [](ColoquinteParameters &p, double v) { p.global.continuousModel.netModel = static_cast<NetModelOption>((int)v); }},
      {"cm.approximationDistance", [](ColoquinteParameters &p, double v) { p.global.continuousModel.approximationDistance = v; }},
      {"cm.approximationDistanceUpdateFactor", [](ColoquinteParameters &p, double v) { p.global.continuousModel.approximationDistanceUpdateFactor = v; }},
      {"cm.maxNbConjugateGradientSteps", [](ColoquinteParameters &p, double v) { p.global.continuousModel.maxNbConjugateGradientSteps = (int)v; }},
      {"cm.conjugateGradientErrorTolerance", [](ColoquinteParameters &p, double v) { p.global.continuousModel.conjugateGradientErrorTolerance = v; }},
      {"rl.costModel", [](ColoquinteParameters &p, double v) { p.global.roughLegalization.costModel = static_cast<LegalizationModel>((int)v); }},
      {"rl.nbSteps", [](ColoquinteParameters &p, double v) { p.global.roughLegalization.nbSteps = (int)v; }},
      {"rl.binSize", [](ColoquinteParameters &p, double v) { p.global.roughLegalization.binSize = v; }},
      {"rl.lineReoptSize", [](ColoquinteParameters &p, double v) { p.global.roughLegalization.lineReoptSize = (int)v; }},
      {"rl.lineReoptOverlap", [](ColoquinteParameters &p, double v) { p.global.roughLegalization.lineReoptOverlap = (int)v; }},
      {"rl.diagReoptSize", [](ColoquinteParameters &p, double v) { p.global.roughLegalization.diagReoptSize = (int)v; }},
      {"rl.diagReoptOverlap", [](ColoquinteParameters &p, double v) { p.global.roughLegalization.diagReoptOverlap = (int)v; }},
      {"rl.squareReoptSize", [](ColoquinteParameters &p, double v) { p.global.roughLegalization.squareReoptSize = (int)v; }},
      {"rl.squareReoptOverlap", [](ColoquinteParameters &p, double v) { p.global.roughLegalization.squareReoptOverlap = (int)v; }},
      {"rl.unidimensionalTransport", [](ColoquinteParameters &p, double v) { p.global.roughLegalization.unidimensionalTransport = v != 0; }},
      {"rl.quadraticPenalty", [](ColoquinteParameters &p, double v) { p.global.roughLegalization.quadraticPenalty = v; }},
      {"rl.sideMargin", [](ColoquinteParameters &p, double v) { p.global.roughLegalization.sideMargin = v; }},
      {"rl.coarseningLimit", [](ColoquinteParameters &p, double v) { p.global.roughLegalization.coarseningLimit = v; }},
      {"rl.targetBlending", [](ColoquinteParameters &p, double v) { p.global.roughLegalization.targetBlending = v; }},
      {"pe.cutoffDistance", [](ColoquinteParameters &p, double v) { p.global.penalty.cutoffDistance = v; }},
      {"pe.cutoffDistanceUpdateFactor", [](ColoquinteParameters &p, double v) { p.global.penalty.cutoffDistanceUpdateFactor = v; }},
      {"pe.areaExponent", [](ColoquinteParameters &p, double v) { p.global.penalty.areaExponent = v; }},
      {"pe.initialValue", [](ColoquinteParameters &p, double v) { p.global.penalty.initialValue = v; }},
      {"pe.updateFactor", [](ColoquinteParameters &p, double v) { p.global.penalty.updateFactor = v; }},
      {"pe.targetBlending", [](ColoquinteParameters &p, double v) { p.global.penalty.targetBlending = v; }},
      {"l.costModel", [](ColoquinteParameters &p, double v) { p.legalization.costModel = static_cast<LegalizationModel>((int)v); }},
      {"l.orderingWidth", [](ColoquinteParameters &p, double v) { p.legalization.orderingWidth = v; }},
      {"l.orderingHeight", [](ColoquinteParameters &p, double v) { p.legalization.orderingHeight = v; }},
      {"l.orderingY", [](ColoquinteParameters &p, double v) { p.legalization.orderingY = v; }},
      {"d.nbPasses", [](ColoquinteParameters &p, double v) { p.detailed.nbPasses = (int)v; }},
      {"d.localSearchNbNeighbours", [](ColoquinteParameters &p, double v) { p.detailed.localSearchNbNeighbours = (int)v; }},
      {"d.localSearchNbRows", [](ColoquinteParameters &p, double v) { p.detailed.localSearchNbRows = (int)v; }},
      {"d.shiftNbRows", [](ColoquinteParameters &p, double v) { p.detailed.shiftNbRows = (int)v; }},
      {"d.shiftMaxNbCells", [](ColoquinteParameters &p, double v) { p.detailed.shiftMaxNbCells = (int)v; }},
      {"d.reorderingNbRows", [](ColoquinteParameters &p, double v) { p.detailed.reorderingNbRows = (int)v; }},
      {"d.reorderingMaxNbCells", [](ColoquinteParameters &p, double v) { p.detailed.reorderingMaxNbCells = (int)v; }},
  };
  return f;
}
}  // namespace

bool applyOverride(ColoquinteParameters &params, const std::string &key, double v) {
  for (auto &f : fields()) {
    if (key == f.name) {
      f.set(params, v);
      return true;
    }
  }
  return false;
}

const std::vector<std::string> &allParamKeys() {
  static std::vector<std::string> keys;
  if (keys.empty())
    for (auto &f : fields()) keys.push_back(f.name);
  return keys;
}

double paramValue(const ParamSpec &p, const std::string &key, double dflt) {
  double v = dflt;
  for (auto &kv : p.ov)
    if (kv.first == key) v = kv.second;
  return v;
}

bool refParamsValid(const ColoquinteParameters &p, std::string *why) {
  auto bad = [&](const char *m) {
    if (why) *why = m;
    return false;
  };
  const auto &rl = p.global.roughLegalization;
  if (rl.nbSteps < 0) return bad("rough legalization steps negative");
  if (rl.binSize < 1.0f) return bad("bin size below 1");
  if (rl.binSize > 25.0f) return bad("bin size above 25");
  if (rl.lineReoptSize < 1 || rl.diagReoptSize < 1 || rl.squareReoptSize < 1) return bad("reopt size below 1");
  if (rl.lineReoptOverlap < 1 || rl.diagReoptOverlap < 1 || rl.squareReoptOverlap < 1) return bad("reopt overlap below 1");
  if (rl.lineReoptSize > 64 || rl.diagReoptSize > 64 || rl.squareReoptSize > 8) return bad("reopt size too large");
  if (rl.lineReoptSize < 2 && rl.diagReoptSize < 2 && rl.squareReoptSize < 2 &&
      (!rl.unidimensionalTransport || rl.costModel != LegalizationModel::L1))
    return bad("no reopt value of 2 or more");
  if (rl.lineReoptSize > 1 && rl.lineReoptOverlap >= rl.lineReoptSize) return bad("line overlap not smaller than size");
  if (rl.diagReoptSize > 1 && rl.diagReoptOverlap >= rl.diagReoptSize) return bad("diag overlap not smaller than size");
  if (rl.squareReoptSize > 1 && rl.squareReoptOverlap >= rl.squareReoptSize) return bad("square overlap not smaller than size");
  if (rl.quadraticPenalty < 0.0 || rl.quadraticPenalty > 1.0) return bad("quadratic penalty outside [0,1]");
  if (rl.targetBlending < -0.1 || rl.targetBlending > 0.9f) return bad("rough legalization target blending outside [-0.1,0.9]");
  const auto &cm = p.global.continuousModel;
  if (cm.approximationDistance < 1.0e-6) return bad("approximation distance too small");
  if (cm.approximationDistanceUpdateFactor < 0.8 || cm.approximationDistanceUpdateFactor > 1.2) return bad("approximation update factor not close to 1");
  if (cm.approximationDistance > 1.0e3) return bad("approximation distance too large");
  if (cm.maxNbConjugateGradientSteps <= 0) return bad("CG steps not positive");
  if (cm.conjugateGradientErrorTolerance < 1.0e-8) return bad("CG tolerance too small");
  if (cm.conjugateGradientErrorTolerance > 1.0) return bad("CG tolerance too large");
  const auto &pe = p.global.penalty;
  if (pe.cutoffDistance < 1.0e-6) return bad("cutoff distance too small");
  if (pe.cutoffDistanceUpdateFactor < 0.8 || pe.cutoffDistanceUpdateFactor > 1.2) return bad("cutoff update factor not close to 1");
  if (pe.areaExponent < 0.49 || pe.areaExponent > 1.01) return bad("area exponent outside [0.5,1]");
  if (pe.initialValue <= 0.0f) return bad("initial penalty not positive");
  if (pe.updateFactor <= 1.0f || pe.updateFactor >= 2.0f) return bad("penalty update factor outside (1,2)");
  if (pe.targetBlending < 0.1f || pe.targetBlending > 1.1f) return bad("penalty target blending outside [0.1,1.1]");
  const auto &g = p.global;
  if (g.maxNbSteps < 0) return bad("max steps negative");
  if (g.nbInitialSteps < 0) return bad("initial steps negative");
  if (g.nbInitialSteps >= g.maxNbSteps) return bad("initial steps not below max steps");
  if (g.nbStepsBeforeRoughLegalization < 1) return bad("steps per legalization below 1");
  if (g.gapTolerance < 0.0f || g.gapTolerance > 1.0f) return bad("gap tolerance outside [0,1]");
  if (g.distanceTolerance < 0.0f) return bad("distance tolerance negative");
  if (g.exportBlending < -0.5f || g.exportBlending > 1.5f) return bad("export blending outside [-0.5,1.5]");
  if (g.noise < 0.0 || g.noise > 2.0) return bad("noise outside [0,2]");
  if (g.penaltyUpdateDistance <= 0.0f) return bad("penalty update distance not positive");
  if (g.penaltyUpdateBackoff < 1.0f) return bad("penalty update backoff below 1");
  const auto &l = p.legalization;
  if (l.costModel != LegalizationModel::L1) return bad("legalization model not L1");
  if (l.orderingWidth > 2.0 || l.orderingWidth < -1.0) return bad("ordering width outside [-1,2]");
  if (l.orderingY > 0.2 || l.orderingY < -0.2) return bad("ordering y outside [-0.2,0.2]");
  const auto &d = p.detailed;
  if (d.nbPasses < 0) return bad("passes negative");
  if (d.localSearchNbNeighbours < 0) return bad("neighbours negative");
  if (d.localSearchNbRows < 0) return bad("rows negative");
  if (d.shiftNbRows <= 0) return bad("shift rows not positive");
  if (d.shiftMaxNbCells < 0) return bad("shift cells negative");
  if (d.reorderingNbRows <= 0) return bad("reordering rows not positive");
  if (d.reorderingMaxNbCells < 0) return bad("reordering cells negative");
  return true;
}

ColoquinteParameters buildParams(const ParamSpec &p) {
  ColoquinteParameters params(p.effort, p.seed);
  for (auto &kv : p.ov) applyOverride(params, kv.first, kv.second);
  return params;
}

Snapshot takeSnapshot(const Circuit &c) {
  Snapshot s;
  s.w = c.cellWidth();
  s.h = c.cellHeight();
  s.x = c.cellX();
  s.y = c.cellY();
  for (auto o : c.cellOrientation()) s.orient.push_back(static_cast<int>(o));
  for (auto p : c.cellRowPolarity()) s.pol.push_back(static_cast<int>(p));
  for (bool b : c.cellIsFixed()) s.fixed.push_back(b ? 1 : 0);
  for (bool b : c.cellIsObstruction()) s.obs.push_back(b ? 1 : 0);
  for (const Row &r : c.rows()) {
    RowSpec rs;
    rs.minX = r.minX;
    rs.maxX = r.maxX;
    rs.minY = r.minY;
    rs.maxY = r.maxY;
    rs.orient = static_cast<int>(r.orientation);
    s.rows.push_back(rs);
  }
  s.netLimits = c.netLimits_;
  s.pinCells = c.pinCells_;
  s.pinX = c.pinXOffsets_;
  s.pinY = c.pinYOffsets_;
  s.netWeights = c.netWeights_;
  return s;
}

CircuitSpec specFromSnapshot(const Snapshot &s) {
  CircuitSpec spec;
  spec.rows = s.rows;
  for (int i = 0; i < s.n(); ++i) {
    CellSpec k;
    k.w = s.w[i];
    k.h = s.h[i];
    k.fixed = s.fixed[i];
    k.obs = s.obs[i];
    k.pol = s.pol[i];
    k.x = s.x[i];
    k.y = s.y[i];
    k.orient = s.orient[i];
    spec.cells.push_back(k);
  }
  for (int n = 0; n < s.nbNets(); ++n) {
    NetSpec net;
    net.weight = n < (int)s.netWeights.size() ? s.netWeights[n] : 1.0f;
    for (int p = s.netLimits[n]; p < s.netLimits[n + 1]; ++p) {
      net.cells.push_back(s.pinCells[p]);
      net.xo.push_back(s.pinX[p]);
      net.yo.push_back(s.pinY[p]);
    }
    spec.nets.push_back(net);
  }
  return spec;
}

uint64_t hashPlacement(const Snapshot &s) {
  HashChain h;
  h.addInts(s.x);
  h.addInts(s.y);
  h.addInts(s.orient);
  return h.h;
}

uint64_t hashPlacement(const Circuit &c) {
  HashChain h;
  h.addInts(c.cellX());
  h.addInts(c.cellY());
  h.add(c.cellOrientation().size());
  for (auto o : c.cellOrientation()) h.add((uint64_t)static_cast<int>(o));
  return h.h;
}

// ------------------------------------------------------------ free space --
FreeSpace computeFree(const Snapshot &s) {
  FreeSpace fs;
  if (s.rows.empty()) return fs;
  fs.uniformHeight = true;
  fs.rowHeight = s.rows[0].maxY - s.rows[0].minY;
  fs.minX = s.rows[0].minX;
  fs.maxX = s.rows[0].maxX;
  fs.minY = s.rows[0].minY;
  fs.maxY = s.rows[0].maxY;
  for (auto &r : s.rows) {
    if (r.maxY - r.minY != fs.rowHeight) fs.uniformHeight = false;
    fs.minX = std::min(fs.minX, r.minX);
    fs.maxX = std::max(fs.maxX, r.maxX);
    fs.minY = std::min(fs.minY, r.minY);
    fs.maxY = std::max(fs.maxY, r.maxY);
  }
  if (!fs.uniformHeight || fs.rowHeight <= 0) {
    fs.rowHeight = fs.uniformHeight ? fs.rowHeight : 0;
  }
  fs.disjointRows = true;
  for (size_t i = 0; i < s.rows.size() && fs.disjointRows; ++i) {
    auto &a = s.rows[i];
    if (a.maxX <= a.minX || a.maxY <= a.minY) continue;
    for (size_t j = i + 1; j < s.rows.size(); ++j) {
      auto &b = s.rows[j];
      if (b.maxX <= b.minX || b.maxY <= b.minY) continue;
      if (a.minX < b.maxX && b.minX < a.maxX && a.minY < b.maxY && b.minY < a.maxY) {
        fs.disjointRows = false;
        break;
      }
    }
  }
  // obstacles
  struct Ob {
    long long x0, x1, y0, y1;
  };
  std::vector<Ob> obs;
  for (int c = 0; c < s.n(); ++c) {
    if (!s.fixed[c] || !s.obs[c]) continue;
    long long pw = s.pw(c), ph = s.ph(c);
    if (pw <= 0 || ph <= 0) continue;
    obs.push_back({s.x[c], (long long)s.x[c] + pw, s.y[c], (long long)s.y[c] + ph});
  }
  for (auto &r : s.rows) {
    if (r.maxX <= r.minX || r.maxY <= r.minY) continue;
    std::vector<Interval> cuts;
    for (auto &o : obs) {
      if (o.x0 < r.maxX && o.x1 > r.minX && o.y0 < r.maxY && o.y1 > r.minY)
        cuts.push_back({std::max<long long>(o.x0, r.minX), std::min<long long>(o.x1, r.maxX)});
    }
    std::sort(cuts.begin(), cuts.end(), [](const Interval &a, const Interval &b) { return a.b < b.b; });
    long long cur = r.minX;
    auto &lvl = fs.levels[r.minY];
    for (auto &c : cuts) {
      if (c.b > cur) lvl.push_back({cur, c.b});
      cur = std::max(cur, c.e);
    }
    if (cur < r.maxX) lvl.push_back({cur, (long long)r.maxX});
    auto it = fs.levelOrient.find(r.minY);
    if (it == fs.levelOrient.end())
      fs.levelOrient[r.minY] = r.orient;
    else if (it->second != r.orient)
      it->second = -2;
  }
  for (auto &kv : fs.levels) {
    std::sort(kv.second.begin(), kv.second.end(), [](const Interval &a, const Interval &b) { return a.b < b.b; });
    for (auto &iv : kv.second) {
      fs.totalFree += iv.e - iv.b;
      fs.nbSegments++;
      fs.maxSegment = std::max(fs.maxSegment, iv.e - iv.b);
    }
  }
  return fs;
}

// -------------------------------------------------------------- domains ---
Domain classify(const Snapshot &s, const FreeSpace &fs, double sideMargin) {
  Domain d;
  const long long LIM = 1LL << 22;
  d.magnitudeOk = true;
  auto big = [&](long long v) { return v > LIM || v < -LIM; };
  for (auto &r : s.rows)
    if (big(r.minX) || big(r.maxX) || big(r.minY) || big(r.maxY)) d.magnitudeOk = false;
  for (int c = 0; c < s.n(); ++c) {
    if (big(s.x[c]) || big(s.y[c]) || big(s.w[c]) || big(s.h[c])) d.magnitudeOk = false;
    if ((long long)s.w[c] * s.h[c] >= (1LL << 31)) d.magnitudeOk = false;
    if (s.w[c] < 0 || s.h[c] < 0) d.magnitudeOk = false;
  }
  for (size_t p = 0; p < s.pinX.size(); ++p)
    if (big(s.pinX[p]) || big(s.pinY[p])) d.magnitudeOk = false;

  // C01 domain
  std::ostringstream why;
  bool ok = true;
  if (s.rows.empty()) {
    ok = false;
    why << "no rows;";
  }
  if (ok && (!fs.uniformHeight || fs.rowHeight <= 0)) {
    ok = false;
    why << "rows not of uniform positive height;";
  }
  if (ok && !fs.disjointRows) {
    ok = false;
    why << "rows overlap;";
  }
  if (ok) {
    for (auto &r : s.rows) {
      if (r.maxX <= r.minX) {
        ok = false;
        why << "empty row;";
        break;
      }
      if (!(r.orient == O_N || r.orient == O_S || r.orient == O_FN || r.orient == O_FS)) {
        ok = false;
        why << "row orientation not N/S/FN/FS;";
        break;
      }
    }
    for (auto &kv : fs.levelOrient)
      if (kv.second == -2) {
        ok = false;
        why << "mixed orientations on one y;";
        break;
      }
  }
  d.singleRowOnly = true;
  bool positiveArea = false;
  for (int c = 0; c < s.n(); ++c) {
    if (s.fixed[c]) continue;
    d.hasMovable = true;
    if (s.w[c] > 0 && s.h[c] > 0) positiveArea = true;
    if (!ok) continue;
    if (s.w[c] <= 0 || s.h[c] <= 0) {
      ok = false;
      why << "movable cell " << c << " without positive size;";
      continue;
    }
    if (s.orient[c] < 0 || s.orient[c] > 7) {
      ok = false;
      why << "movable cell " << c << " with orientation " << s.orient[c] << ";";
      continue;
    }
    if (s.pol[c] < 0 || s.pol[c] > 4) {
      ok = false;
      why << "bad polarity;";
      continue;
    }
    if (s.pol[c] != P_ANY && s.turned(c)) {
      ok = false;
      why << "polarised cell " << c << " turned;";
      continue;
    }
    if (s.ph(c) % fs.rowHeight != 0) {
      ok = false;
      why << "cell " << c << " placed height not a multiple of the row height;";
      continue;
    }
    if (s.ph(c) != fs.rowHeight) d.singleRowOnly = false;
  }
  if (ok && !d.magnitudeOk) {
    ok = false;
    why << "outside the supported magnitude range;";
  }
  d.c01 = ok;
  d.c01Why = why.str();
  if (!ok) d.singleRowOnly = false;

  // C06 domain
  std::ostringstream why6;
  bool ok6 = true;
  if (!positiveArea) {
    ok6 = false;
    why6 << "no movable cell of positive area;";
  }
  if (s.rows.empty() || !fs.uniformHeight || fs.rowHeight <= 0 || !fs.disjointRows) {
    ok6 = false;
    why6 << "rows not uniform/disjoint;";
  }
  if (ok6) {
    for (auto &r : s.rows)
      if ((long long)(r.maxX - r.minX) < 4LL * fs.rowHeight) {
        ok6 = false;
        why6 << "row narrower than four row heights;";
        break;
      }
  }
  if (ok6) {
    // the density grid keeps a free segment only if it is wider than twice
    // the side margin, which the implementation scales by the smallest
    // positive cell height; the degenerate "no segment left" case is excluded
    long long minH = -1;
    for (int c = 0; c < s.n(); ++c)
      if (s.h[c] > 0 && (minH < 0 || s.h[c] < minH)) minH = s.h[c];
    long long margin = (long long)(sideMargin * (double)minH);
    bool any = false;
    for (auto &kv : fs.levels)
      for (auto &iv : kv.second)
        if (iv.e - iv.b > 2 * margin) any = true;
    if (!any) {
      ok6 = false;
      why6 << "every free segment is removed by the side margin;";
    }
  }
  if (ok6 && !d.magnitudeOk) {
    ok6 = false;
    why6 << "outside the supported magnitude range;";
  }
  d.c06 = ok6;
  d.c06Why = why6.str();
  return d;
}

// -------------------------------------------------------------- oracles ---
std::string checkLegality(const Snapshot &s, const FreeSpace &fs) {
  std::ostringstream os;
  int H = fs.rowHeight;
  if (H <= 0) return "";
  std::vector<int> mov;
  for (int c = 0; c < s.n(); ++c) {
    if (s.fixed[c]) continue;
    long long pw = s.pw(c), ph = s.ph(c);
    if (pw <= 0 || ph <= 0) continue;
    mov.push_back(c);
    if (ph % H != 0) continue;  // outside the domain, not judged
    for (long long k = 0; k < ph / H; ++k) {
      long long lvl = (long long)s.y[c] + k * H;
      auto it = (lvl >= INT32_MIN && lvl <= INT32_MAX) ? fs.levels.find((int)lvl) : fs.levels.end();
      if (it == fs.levels.end()) {
        os << "cell " << c << " (x=" << s.x[c] << " y=" << s.y[c] << " " << pw << "x" << ph
           << " orient=" << s.orient[c] << "): strip " << k << " at y=" << lvl << " is not on a row";
        return os.str();
      }
      bool inside = false;
      for (auto &iv : it->second)
        if (iv.b <= s.x[c] && (long long)s.x[c] + pw <= iv.e) {
          inside = true;
          break;
        }
      if (!inside) {
        os << "cell " << c << " (x=" << s.x[c] << " y=" << s.y[c] << " " << pw << "x" << ph
           << " orient=" << s.orient[c] << "): strip " << k << " at y=" << lvl
           << " does not fit inside one free row segment";
        return os.str();
      }
    }
  }
  std::sort(mov.begin(), mov.end(), [&](int a, int b) { return s.x[a] < s.x[b]; });
  for (size_t i = 0; i < mov.size(); ++i) {
    int a = mov[i];
    long long ax1 = (long long)s.x[a] + s.pw(a);
    for (size_t j = i + 1; j < mov.size(); ++j) {
      int b = mov[j];
      if (s.x[b] >= ax1) break;
      long long ay0 = s.y[a], ay1 = ay0 + s.ph(a), by0 = s.y[b], by1 = by0 + s.ph(b);
      if (ay0 < by1 && by0 < ay1) {
        os << "movable cells " << a << " and " << b << " overlap: (" << s.x[a] << "," << s.y[a]
           << " " << s.pw(a) << "x" << s.ph(a) << ") vs (" << s.x[b] << "," << s.y[b] << " "
           << s.pw(b) << "x" << s.ph(b) << ")";
        return os.str();
      }
    }
  }
  return "";
}

int expectedOrientation(int pol, int rowOrient) {
  switch (pol) {
    case P_SAME: return rowOrient;
    case P_OPPOSITE:
      switch (rowOrient) {
        case O_N: return O_FS;
        case O_FS: return O_N;
        case O_S: return O_FN;
        case O_FN: return O_S;
        case O_E: return O_FW;
        case O_FW: return O_E;
        case O_W: return O_FE;
        case O_FE: return O_W;
        default: return O_INVALID;
      }
    case P_NW:
      return (rowOrient == O_N || rowOrient == O_FN || rowOrient == O_W || rowOrient == O_FW) ? rowOrient : O_INVALID;
    case P_SE:
      return (rowOrient == O_S || rowOrient == O_FS || rowOrient == O_E || rowOrient == O_FE) ? rowOrient : O_INVALID;
    default: return O_UNKNOWN;
  }
}

static int yMirror(int o) {
  switch (o) {
    case O_N: return O_FN;
    case O_FN: return O_N;
    case O_S: return O_FS;
    case O_FS: return O_S;
    case O_W: return O_FW;
    case O_FW: return O_W;
    case O_E: return O_FE;
    case O_FE: return O_E;
    default: return o;
  }
}

std::string checkOrientation(const Snapshot &before, const Snapshot &after, const FreeSpace &fs) {
  std::ostringstream os;
  for (int c = 0; c < after.n(); ++c) {
    if (after.fixed[c]) continue;
    if (after.w[c] <= 0 || after.h[c] <= 0) continue;
    int pol = after.pol[c];
    if (after.orient[c] == O_INVALID) {
      os << "cell " << c << " (polarity " << pol << ") has orientation INVALID at y=" << after.y[c];
      return os.str();
    }
    if (pol == P_ANY) {
      if (c < before.n() && after.orient[c] != before.orient[c]) {
        os << "cell " << c << " without polarity changed orientation " << before.orient[c] << " -> " << after.orient[c];
        return os.str();
      }
      continue;
    }
    auto it = fs.levelOrient.find(after.y[c]);
    if (it == fs.levelOrient.end() || it->second == -2) continue;  // legality's business
    int exp = expectedOrientation(pol, it->second);
    if (exp == O_INVALID) {
      os << "cell " << c << " with polarity " << pol << " sits on a row of orientation " << it->second
         << " (y=" << after.y[c] << ") which its polarity forbids";
      return os.str();
    }
    bool okOrient = after.orient[c] == exp;
    // "flipping is allowed" for NW/SE: accept the y-mirrored orientation too
    if (!okOrient && (pol == P_NW || pol == P_SE) && after.orient[c] == yMirror(exp)) okOrient = true;
    if (!okOrient) {
      os << "cell " << c << " with polarity " << pol << " on a row of orientation " << it->second
         << " has orientation " << after.orient[c] << ", expected " << exp;
      return os.str();
    }
  }
  return "";
}

long long refHpwl(const Snapshot &s) {
  long long total = 0;
  for (int n = 0; n < s.nbNets(); ++n) {
    int b = s.netLimits[n], e = s.netLimits[n + 1];
    if (e <= b) continue;
    long long minX = 0, maxX = 0, minY = 0, maxY = 0;
    bool first = true;
    for (int p = b; p < e; ++p) {
      int c = s.pinCells[p];
      long long w = s.w[c], h = s.h[c], px = s.pinX[p], py = s.pinY[p];
      long long ox = 0, oy = 0;
      switch (s.orient[c]) {
        default:
        case O_N: ox = px; oy = py; break;
        case O_S: ox = w - px; oy = h - py; break;
        case O_W: ox = h - py; oy = px; break;
        case O_E: ox = py; oy = w - px; break;
        case O_FN: ox = w - px; oy = py; break;
        case O_FS: ox = px; oy = h - py; break;
        case O_FW: ox = py; oy = px; break;
        case O_FE: ox = h - py; oy = w - px; break;
      }
      long long X = (long long)s.x[c] + ox, Y = (long long)s.y[c] + oy;
      if (first) {
        minX = maxX = X;
        minY = maxY = Y;
        first = false;
      } else {
        minX = std::min(minX, X);
        maxX = std::max(maxX, X);
        minY = std::min(minY, Y);
        maxY = std::max(maxY, Y);
      }
    }
    total += (maxX - minX) + (maxY - minY);
  }
  return total;
}

std::string frameDiff(const Snapshot &a, const Snapshot &b, int stage) {
  std::ostringstream os;
  if (a.n() != b.n()) return "number of cells changed";
  if (a.w != b.w) return "a cell width changed";
  if (a.h != b.h) return "a cell height changed";
  if (a.fixed != b.fixed) return "a fixed flag changed";
  if (a.obs != b.obs) return "an obstruction flag changed";
  if (a.pol != b.pol) return "a row polarity changed";
  if (a.netLimits != b.netLimits) return "net structure changed";
  if (a.pinCells != b.pinCells) return "net pins changed";
  if (a.pinX != b.pinX || a.pinY != b.pinY) return "pin offsets changed";
  if (a.netWeights.size() != b.netWeights.size() ||
      (a.netWeights.size() &&
       memcmp(a.netWeights.data(), b.netWeights.data(), a.netWeights.size() * sizeof(float)) != 0))
    return "net weights changed";
  if (a.rows.size() != b.rows.size()) return "number of rows changed";
  for (size_t i = 0; i < a.rows.size(); ++i) {
    auto &r = a.rows[i];
    auto &q = b.rows[i];
    if (r.minX != q.minX || r.maxX != q.maxX || r.minY != q.minY || r.maxY != q.maxY || r.orient != q.orient) {
      os << "row " << i << " changed";
      return os.str();
    }
  }
  for (int c = 0; c < a.n(); ++c) {
    if (a.fixed[c]) {
      if (a.x[c] != b.x[c] || a.y[c] != b.y[c] || a.orient[c] != b.orient[c]) {
        os << "fixed cell " << c << " moved/reoriented: (" << a.x[c] << "," << a.y[c] << "," << a.orient[c]
           << ") -> (" << b.x[c] << "," << b.y[c] << "," << b.orient[c] << ")";
        return os.str();
      }
    } else if (stage == 0 && a.orient[c] != b.orient[c]) {
      os << "global placement changed orientation of cell " << c << ": " << a.orient[c] << " -> " << b.orient[c];
      return os.str();
    }
  }
  return "";
}

bool samePlacement(const Snapshot &a, const Snapshot &b, std::string *why) {
  for (int c = 0; c < a.n() && c < b.n(); ++c) {
    if (a.x[c] != b.x[c] || a.y[c] != b.y[c] || a.orient[c] != b.orient[c]) {
      if (why) {
        std::ostringstream os;
        os << "cell " << c << ": (" << a.x[c] << "," << a.y[c] << ",o" << a.orient[c] << ") vs (" << b.x[c]
           << "," << b.y[c] << ",o" << b.orient[c] << ")";
        *why = os.str();
      }
      return false;
    }
  }
  return a.n() == b.n();
}

bool trivialLegalizable(const Snapshot &s, const FreeSpace &fs) {
  if (fs.rowHeight <= 0) return false;
  long long sum = 0, maxW = 0;
  int n = 0;
  for (int c = 0; c < s.n(); ++c) {
    if (s.fixed[c]) continue;
    if (s.pol[c] != P_ANY) return false;
    if (s.pw(c) <= 0 || s.ph(c) != fs.rowHeight) return false;
    sum += s.pw(c);
    maxW = std::max<long long>(maxW, s.pw(c));
    ++n;
  }
  if (n == 0) return true;
  return sum <= fs.totalFree - (long long)fs.nbSegments * maxW;
}

}  // namespace sim
