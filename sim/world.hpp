// Bridge between plans and the real library objects, and the reference
// models / oracles.  Oracles are independent re-implementations written from
// the documentation in coloquinte.hpp and the property texts; they only share
// the numeric values of the public enums with the library.
#pragma once
#include <map>
#include <string>
#include <vector>

#include "coloquinte.hpp"
#include "plan.hpp"

namespace sim {

// Orientation / polarity numeric values (mirrors of the public enums).
enum { O_N = 0, O_S = 1, O_W = 2, O_E = 3, O_FN = 4, O_FS = 5, O_FW = 6, O_FE = 7, O_INVALID = 8, O_UNKNOWN = 9 };
enum { P_ANY = 0, P_SAME = 1, P_OPPOSITE = 2, P_NW = 3, P_SE = 4 };

coloquinte::Circuit buildCircuit(const CircuitSpec &spec);
// throws whatever the library throws (effort out of range etc.)
coloquinte::ColoquinteParameters buildParams(const ParamSpec &p);
bool applyOverride(coloquinte::ColoquinteParameters &params, const std::string &key, double v);
const std::vector<std::string> &allParamKeys();
double paramValue(const ParamSpec &p, const std::string &key, double dflt);
// Reference model of the documented parameter ranges (the bounds named by the
// messages of the *Parameters::check() functions of the pinned tree), used to
// decide independently of the library whether a parameter set must be refused.
bool refParamsValid(const coloquinte::ColoquinteParameters &p, std::string *why = nullptr);

// Structural snapshot of every public getter of a Circuit.
struct Snapshot {
  std::vector<int> w, h, x, y, orient, pol;
  std::vector<char> fixed, obs;
  std::vector<RowSpec> rows;
  std::vector<int> netLimits, pinCells, pinX, pinY;
  std::vector<float> netWeights;
  int n() const { return (int)w.size(); }
  int nbNets() const { return (int)netLimits.size() - 1; }
  static bool isTurned(int o) { return o == O_W || o == O_E || o == O_FW || o == O_FE; }
  bool turned(int c) const { return isTurned(orient[c]); }
  int pw(int c) const { return turned(c) ? h[c] : w[c]; }
  int ph(int c) const { return turned(c) ? w[c] : h[c]; }
};
Snapshot takeSnapshot(const coloquinte::Circuit &c);
CircuitSpec specFromSnapshot(const Snapshot &s);
uint64_t hashPlacement(const Snapshot &s);
uint64_t hashPlacement(const coloquinte::Circuit &c);

// ---- free space model ------------------------------------------------------
struct Interval {
  long long b, e;
};
struct FreeSpace {
  // per y level: merged free intervals of the rows whose minY is that level
  // (rows minus the x-ranges of fixed obstruction cells that overlap the row
  // with positive area)
  std::map<int, std::vector<Interval>> levels;
  std::map<int, int> levelOrient;  // orientation of the rows at this y (-2: mixed)
  int rowHeight = 0;               // 0: no rows or non-uniform
  bool uniformHeight = false;
  bool disjointRows = false;
  long long totalFree = 0;
  int nbSegments = 0;
  long long maxSegment = 0;
  int minX = 0, maxX = 0, minY = 0, maxY = 0;  // bounding box of the rows
};
FreeSpace computeFree(const Snapshot &s);

// ---- domains ---------------------------------------------------------------
struct Domain {
  bool c01 = false;       // C01 quantifier (rows, cell shapes, orientations)
  std::string c01Why;
  bool singleRowOnly = false;  // every movable cell is exactly one row high (placed)
  bool hasMovable = false;
  bool c06 = false;       // C06 quantifier incl. non-degenerate density grid
  std::string c06Why;
  bool magnitudeOk = false;  // |v| <= 2^22, areas < 2^31
};
Domain classify(const Snapshot &s, const FreeSpace &fs, double sideMargin);

// ---- oracles (return "" when satisfied, else a description) ---------------
std::string checkLegality(const Snapshot &s, const FreeSpace &fs);
// polarity/orientation table; `before` gives the orientation ANY cells must keep
std::string checkOrientation(const Snapshot &before, const Snapshot &after, const FreeSpace &fs);
long long refHpwl(const Snapshot &s);
// frame condition: `stage` 0 global (orientations must not change at all),
// 1 legalize/detailed (movable cells may change x, y, orientation)
std::string frameDiff(const Snapshot &a, const Snapshot &b, int stage);
bool samePlacement(const Snapshot &a, const Snapshot &b, std::string *why = nullptr);
// C01 third clause: success is trivial
bool trivialLegalizable(const Snapshot &s, const FreeSpace &fs);
// expected orientation of a polarised cell on a row of orientation rowOrient
int expectedOrientation(int pol, int rowOrient);

}  // namespace sim
