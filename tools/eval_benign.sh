#!/bin/bash
# Evaluate one property-preserving change ("benign" change): the checks must
# stay silent on it.
#
#   tools/eval_benign.sh <benign-id> <property> [more properties...]
#
# /verif/benign/<id>/patch.diff changes the behaviour of the library (other
# results, other thread structure, other exception types, more callbacks ...)
# without breaking any listed property.  The script confirms in a scratch
# worktree (outside /repo and /verif) that the library builds and the unedited
# test suite passes with the patch, runs the quick check of each named
# property against that worktree (VERIF_REPO), and records exit codes and
# VIOLATION / HARNESS lines in /verif/benign/<id>/meta.json.  Any non-zero exit
# is a false alarm of the machinery.
set -uo pipefail
ID=$1; shift; PROPS=("$@")
HERE="$(cd "$(dirname "$0")/.." && pwd)"
SCR=/tmp/benign-eval-$$
OUT=$HERE/benign/$ID
mkdir -p "$SCR"
log() { echo "[benign $ID] $*"; }
WT=$SCR/wt
git -C /repo worktree add -q --detach "$WT" HEAD || exit 2
( cd "$WT" && git apply "$OUT/patch.diff" ) || { log "patch does not apply"; git -C /repo worktree remove --force "$WT"; exit 2; }
( cd "$WT" && cmake -G Ninja -B _build -S . -DCMAKE_BUILD_TYPE=RelWithDebInfo >/dev/null 2>&1 && cmake --build _build >/dev/null 2>&1 ) || { log "patched tree does not build"; git -C /repo worktree remove --force "$WT"; exit 2; }
TESTS=$(cd "$WT" && ctest --test-dir _build -j8 2>&1 | grep -c "100% tests passed")
rm -rf "$WT/_build"
log "tests_pass_with_patch=$TESTS"
export VERIF_REPO=$WT VERIF_BUILD=$SCR/build
RESULTS="{"
for P in "${PROPS[@]}"; do
  T0=$(date +%s)
  VERIF_EVIDENCE=$SCR/evidence VERIF_REPLAYS=$SCR/replays "$HERE/check" "$P" quick > "$SCR/check_$P.log" 2>&1
  RC=$?
  T1=$(date +%s)
  BAD=$(grep -E "^VIOLATION|^HARNESS" "$SCR/check_$P.log" | head -3 | tr '\n' ';' | tr '"' "'")
  DEG=$(grep -o '"sched_degraded_ops": [0-9]*' "$SCR/evidence/$P.json" 2>/dev/null | head -1 | grep -o '[0-9]*$')
  SEQ=$(grep -o '"sched_sequential_solves": [0-9]*' "$SCR/evidence/$P.json" 2>/dev/null | head -1 | grep -o '[0-9]*$')
  log "check $P quick: exit=$RC $( [ $RC -eq 0 ] && echo silent || echo FALSE-ALARM ) degraded_ops=${DEG:-0} sequential_solves=${SEQ:-0} ($((T1-T0))s) $BAD"
  [ $RC -ne 0 ] && { grep -A6 -E "^VIOLATION|^HARNESS" "$SCR/check_$P.log" | head -20; mkdir -p "$OUT/false-alarm"; cp "$SCR/check_$P.log" "$OUT/false-alarm/"; cp "$SCR/replays"/$P-*.plan "$OUT/false-alarm/" 2>/dev/null; }
  RESULTS="$RESULTS\"$P\": {\"exit\": $RC, \"silent\": $( [ $RC -eq 0 ] && echo true || echo false ), \"sched_degraded_ops\": ${DEG:-0}, \"sched_sequential_solves\": ${SEQ:-0}, \"seconds\": $((T1-T0)), \"lines\": \"$BAD\"},"
done
git -C /repo worktree remove --force "$WT"
RESULTS="${RESULTS%,}}"
cat > "$OUT/meta.json" <<EOF
{
 "id": "$ID",
 "kind": "property-preserving change: every check must stay silent",
 "test_suite_passes_with_patch": $( [ "$TESTS" = "1" ] && echo true || echo false ),
 "what_i_ran": "tools/eval_benign.sh: scratch worktree of /repo HEAD -> git apply patch.diff -> cmake build -> ctest -> ./check <property> quick against the patched worktree (VERIF_REPO), evidence/replays redirected to scratch",
 "check_results": $RESULTS
}
EOF
rm -rf "$SCR"
exit 0
