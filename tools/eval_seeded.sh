#!/bin/bash
# Evaluate one independently seeded change.
#
#   tools/eval_seeded.sh <source-dir> <seeded-id> <property> [more properties...]
#
# <source-dir> holds patch.diff, demo.cpp, demo.sh, NOTES.md as produced by a
# sub-agent in its own scratch worktree.
#
# 1. confirm in a fresh scratch worktree of /repo (outside /repo and /verif)
#    that the patch applies, the library builds, the unedited test suite
#    passes, the demonstration fails with the patch and passes without it;
# 2. apply the patch to /repo, run the quick check of each named property with
#    evidence/replays redirected to a scratch directory, undo the patch;
# 3. store patch, demonstration and meta.json under /verif/seeded/<seeded-id>/.
set -uo pipefail
SRC=$1; ID=$2; shift 2; PROPS=("$@")
HERE="$(cd "$(dirname "$0")/.." && pwd)"
SCR=/tmp/seeded-eval-$$
OUT=$HERE/seeded/$ID
mkdir -p "$SCR" "$OUT"
cp "$SRC/patch.diff" "$SRC/demo.cpp" "$SRC/demo.sh" "$OUT/" 2>/dev/null
[ -f "$SRC/NOTES.md" ] && cp "$SRC/NOTES.md" "$OUT/NOTES.md"

log() { echo "[eval $ID] $*"; }
confirm() {
  local wt=$SCR/wt
  git -C /repo worktree add -q --detach "$wt" HEAD || return 1
  ( cd "$wt" && git apply "$OUT/patch.diff" ) || { log "patch does not apply"; return 1; }
  cp "$OUT/demo.cpp" "$OUT/demo.sh" "$wt/"
  ( cd "$wt" && cmake -G Ninja -B _build -S . -DCMAKE_BUILD_TYPE=RelWithDebInfo >/dev/null 2>&1 && cmake --build _build >/dev/null 2>&1 ) || { log "patched tree does not build"; return 1; }
  local tests; tests=$(cd "$wt" && ctest --test-dir _build -j8 2>&1 | grep -c "100% tests passed")
  ( cd "$wt" && timeout 600 bash demo.sh >"$SCR/demo_patched.log" 2>&1 ); local with=$?
  ( cd "$wt" && git checkout -q -- src && cmake --build _build >/dev/null 2>&1 )
  ( cd "$wt" && timeout 600 bash demo.sh >"$SCR/demo_orig.log" 2>&1 ); local without=$?
  git -C /repo worktree remove --force "$wt"
  log "tests_pass_with_patch=$tests demo_exit_with_patch=$with demo_exit_without_patch=$without"
  echo "$tests $with $without" > "$SCR/confirm.txt"
  [ "$tests" = "1" ] && [ "$with" != "0" ] && [ "$without" = "0" ]
}
confirm; CONF=$?
read -r TESTS WITH WITHOUT < "$SCR/confirm.txt" 2>/dev/null || { TESTS=0; WITH=-1; WITHOUT=-1; }

RESULTS="{"
if [ $CONF -eq 0 ]; then
  # The checks run against a scratch worktree with the patch applied (VERIF_REPO),
  # equivalent to `git -C /repo apply` + run + `git -C /repo checkout -- .` but safe
  # while long background runs rebuild from /repo.  EVAL_IN_REPO=1 patches /repo itself.
  WT2=$SCR/wt-check
  if [ "${EVAL_IN_REPO:-0}" = "1" ]; then
    if ! git -C /repo diff --quiet; then log "/repo has uncommitted changes, refusing"; exit 2; fi
    git -C /repo apply "$OUT/patch.diff" || { log "cannot apply to /repo"; exit 2; }
    export VERIF_REPO=/repo
  else
    git -C /repo worktree add -q --detach "$WT2" HEAD && ( cd "$WT2" && git apply "$OUT/patch.diff" ) || { log "cannot prepare scratch worktree"; exit 2; }
    export VERIF_REPO=$WT2 VERIF_BUILD=$SCR/build
  fi
  for P in "${PROPS[@]}"; do
    T0=$(date +%s)
    VERIF_EVIDENCE=$SCR/evidence VERIF_REPLAYS=$SCR/replays "$HERE/check" "$P" quick > "$SCR/check_$P.log" 2>&1
    RC=$?
    T1=$(date +%s)
    VIOL=$(grep -m1 "^VIOLATION" "$SCR/check_$P.log" || true)
    CLAUSES=$(grep "^  clause=" "$SCR/check_$P.log" | sed 's/^  clause=\([^ ]*\).*/\1/' | sort -u | tr '\n' ' ')
    log "check $P quick: exit=$RC $( [ -n "$VIOL" ] && echo caught || echo MISSED ) clauses: $CLAUSES ($((T1-T0))s)"
    grep -A3 "^VIOLATION" "$SCR/check_$P.log" | head -8
    RESULTS="$RESULTS\"$P\": {\"exit\": $RC, \"caught\": $( [ -n "$VIOL" ] && echo true || echo false ), \"clauses\": \"$CLAUSES\", \"seconds\": $((T1-T0))},"
    # keep the first minimised replay as an example
    F=$(ls "$SCR/replays"/$P-*.plan 2>/dev/null | head -1)
    [ -n "$F" ] && cp "$F" "$OUT/caught-by-$P.plan"
  done
  if [ "${EVAL_IN_REPO:-0}" = "1" ]; then git -C /repo checkout -- .; else git -C /repo worktree remove --force "$WT2"; fi
fi
RESULTS="${RESULTS%,}}"
cat > "$OUT/meta.json" <<EOF
{
 "id": "$ID",
 "source": "independent sub-agent, given only the property text and its own scratch worktree of /repo",
 "breaks_property": "${PROPS[0]}",
 "confirmed": { "patch_applies_and_builds": $( [ "$WITH" != "-1" ] && echo true || echo false ), "test_suite_passes_with_patch": $( [ "$TESTS" = "1" ] && echo true || echo false ), "demo_exit_with_patch": $WITH, "demo_exit_without_patch": $WITHOUT },
 "what_i_ran": "tools/eval_seeded.sh: fresh scratch worktree of /repo HEAD -> git apply patch.diff -> cmake build -> ctest -> demo.sh (must fail) -> revert -> rebuild -> demo.sh (must pass); then ./check <property> quick against the patched tree (scratch worktree via VERIF_REPO, or /repo itself with EVAL_IN_REPO=1: git -C /repo apply patch.diff ... git -C /repo checkout -- .), evidence/replays redirected to scratch",
 "needs_to_manifest": "see NOTES.md",
 "check_results": $RESULTS
}
EOF
rm -rf "$SCR"
log "stored in $OUT"
exit 0
