#!/bin/bash
# For each fix: commit of /repo, revert it in a scratch worktree and run the
# quick check of the property it repaired; the check must raise a VIOLATION.
HERE="$(cd "$(dirname "$0")/.." && pwd)"
PAIRS=("b30855e C10" "39be3b1 C07" "42db374 C07" "00d430b C01" "c4396d0 C02" "a9b53f2 C02" "e45c189 C04" "419e1db C07" "e59315d C12" "7b1989f C19" "c2d47a6 C19")
for pc in "${PAIRS[@]}"; do
  set -- $pc; C=$1; P=$2
  WT=/tmp/revert-$C
  rm -rf $WT /tmp/revert-build-$C
  git -C /repo worktree add -q --detach $WT HEAD
  if ! git -C $WT revert --no-commit $C >/dev/null 2>&1; then
    echo "revert $C ($P): conflicts, skipped"
    git -C /repo worktree remove --force $WT; continue
  fi
  T0=$(date +%s)
  VERIF_REPO=$WT VERIF_BUILD=/tmp/revert-build-$C VERIF_REPLAYS=/tmp/revert-build-$C/replays VERIF_EVIDENCE=/tmp/revert-build-$C/evidence ${VERIF_RUNS_SCALE:+VERIF_RUNS_SCALE=$VERIF_RUNS_SCALE} $HERE/check $P quick > /tmp/revert-$C.log 2>&1
  RC=$?
  T1=$(date +%s)
  CL=$(grep "^  clause=" /tmp/revert-$C.log | sed 's/^  clause=\([^ ]*\).*/\1/' | sort -u | tr '\n' ' ')
  echo "revert $C ($P): exit=$RC clauses: $CL ($((T1-T0))s)"
  git -C /repo worktree remove --force $WT
  rm -rf /tmp/revert-build-$C
done
